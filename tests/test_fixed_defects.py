"""Plain replays (no explorer) of the defects found by the checks and repaired by `fix:` commits in /repo.
Run: /venv/bin/python -m pytest -q /verif/tests  (each test fails on the pinned pre-fix tree)."""


def test_c17_ack_of_connect_is_not_answered():
    from asyncio import DatagramTransport
    from okdmr.dmrlib.protocols.hytera.rrs_datagram_protocol import RRSDatagramProtocol

    class T(DatagramTransport):
        def __init__(self):
            super().__init__()
            self.sent = []

        def sendto(self, data, addr=None):
            self.sent.append(bytes(data))

        def is_closing(self):
            return False

    p, t = RRSDatagramProtocol(port=1), T()
    p.connection_made(t)
    p.datagram_received(bytes.fromhex("324200050000"), ("192.0.2.1", 1))  # CONNECT|ACK
    assert t.sent == []
    p.datagram_received(bytes.fromhex("324200040000"), ("192.0.2.1", 1))  # CONNECT
    assert t.sent == [bytes.fromhex("324200050000")]


def _tracker_with_recorder():
    import sys, os
    sys.path.insert(0, os.path.dirname(os.path.dirname(os.path.abspath(__file__))))
    from mc import env  # noqa: F401
    import checks.c08_tracker as c

    if not c.ALPHA:
        c.parse_alphabet()
    from okdmr.dmrlib.transmission.terminal import Terminal

    rec = c.Recorder("t")
    return c, Terminal(dmrid=1, observers=[rec]), rec


def test_c08_data_block_after_voice_header_does_not_end_data():
    import copy

    c, term, rec = _tracker_with_recorder()
    for name in ("VH", "R12_0"):
        term.process_incoming_burst(copy.deepcopy(c.PARSED[name]), 1)
    assert [(e[0], e[1]) for e in rec.events] in ([("started", "V"), ("ended", "V")], [("started", "V")])


def test_c08_short_udp_ip_payload_does_not_raise():
    import copy

    c, term, rec = _tracker_with_recorder()
    for name in ("DH_IP1", "R12_0"):
        term.process_incoming_burst(copy.deepcopy(c.PARSED[name]), 1)
    assert [(e[0], e[1]) for e in rec.events] == [("started", "D"), ("ended", "D")]
    assert term.timeslots[1].transmission.type.name == "Idle"


def test_c19_byteswap_does_not_touch_argument():
    from okdmr.dmrlib.utils.bits_bytes import byteswap_bytearray

    buf = bytearray(b"\x01\x02\x03\x04")
    assert byteswap_bytearray(buf) == b"\x02\x01\x04\x03"
    assert buf == bytearray(b"\x01\x02\x03\x04")


def test_c19_get_token_twice():
    from okdmr.dmrlib.motorola.lrrp import LRRP
    from okdmr.dmrlib.motorola.mbxml import MBXMLDocumentIdentifier

    doc = LRRP(document_id=MBXMLDocumentIdentifier.LRRP_ImmediateLocationReport_NCDT)
    a = doc.get_token(name=0x39, value=b"\x51", attributes={"result-code": 5}, is_request=False)
    b = doc.get_token(name=0x39, value=b"\x51", attributes={"result-code": 5}, is_request=False)
    assert a.token_id == b.token_id


def test_c19_default_arguments_are_not_shared():
    from bitarray import bitarray
    from okdmr.dmrlib.etsi.layer2.burst import Burst
    from okdmr.dmrlib.hytera.pdu.radio_control_protocol import (
        RadioControlProtocol, RCPOpcode, StatusChangeNotificationTargets, StatusChangeNotificationSetting)

    b = Burst()
    b.full_bits[0:8] = bitarray("11111111")
    assert Burst().full_bits.count() == 0
    p = RadioControlProtocol(opcode=RCPOpcode.StatusChangeNotificationRequest)
    p.status_change_settings[StatusChangeNotificationTargets.RSSI] = StatusChangeNotificationSetting.ENABLE_NOTIFY
    assert RadioControlProtocol(opcode=RCPOpcode.StatusChangeNotificationRequest).status_change_settings == {}


def test_c02_repair_of_deinterleaved_errorfree_codeword_is_identity():
    from bitarray import bitarray
    from okdmr.dmrlib.etsi.fec.bptc_196_96 import BPTC19696 as B

    m = bitarray("110110100110111101001001101110111110101001111100010110000011100011000001111001100110001010011010")
    d = B.deinterleave_all_bits(B.encode(m))
    assert B.repair_if_necessary(bitarray(d), deinterleaved=True) == d


def test_c15_negative_zero_sfloatvar_keeps_its_octets():
    from okdmr.dmrlib.motorola.mbxml import MBXML

    value, end = MBXML.read_sfloatvar(b"\x40\x00", 0)
    assert end == 2
    assert MBXML.write_sfloatvar(value, 1) == b"\x40\x00"


def _run_optimised(code):
    import subprocess, sys, os

    env = dict(os.environ, PYTHONPATH=os.environ.get("VERIF_REPO", "/repo"))
    return subprocess.run([sys.executable, "-O", "-B", "-c", code], capture_output=True, text=True, env=env)


def test_c10_impossible_point_is_refused_under_python_O():
    r = _run_optimised(
        "from okdmr.dmrlib.etsi.fec.trellis import Trellis34 as T\n"
        "from bitarray import bitarray\n"
        "pts = T.tribits_to_points(T.bits_to_tribits(bitarray('0' * 144)))\n"
        "pts[0] = 1  # state 0 emits even points only\n"
        "try:\n"
        "    T.points_to_tribits(pts)\n"
        "    print('DECODED')\n"
        "except AssertionError:\n"
        "    print('REFUSED')\n"
    )
    assert r.stdout.strip() == "REFUSED", r.stdout + r.stderr


def test_c17_garbage_is_not_taken_for_hstrp_under_python_O():
    r = _run_optimised(
        "from okdmr.dmrlib.hytera.pdu.hstrp import HSTRP\n"
        "try:\n"
        "    HSTRP.from_bytes(bytes.fromhex('334200040000'))\n"
        "    print('PARSED')\n"
        "except AssertionError:\n"
        "    print('REFUSED')\n"
    )
    assert r.stdout.strip() == "REFUSED", r.stdout + r.stderr


def test_c04_hrnp_checksum_covers_the_bytes_it_sends_when_the_date_changes_during_serialisation():
    import datetime as _dt
    import okdmr.dmrlib.hytera.pdu.location_protocol as lpm
    from okdmr.dmrlib.hytera.pdu.hrnp import HRNP, HRNPOpcodes
    from okdmr.dmrlib.hytera.pdu.radio_ip import RadioIP

    days = iter(range(1, 1000))

    class TickingDate(_dt.date):
        @classmethod
        def today(cls):
            return cls(2023, 11, 14) + _dt.timedelta(days=next(days))

    real = lpm.date
    lpm.date = TickingDate
    try:
        lp = lpm.LocationProtocol(opcode=lpm.LocationProtocolSpecificService.StandardReport, request_id=7, radio_ip=RadioIP(radio_id=1001, subnet=10))
        raw = HRNP(opcode=HRNPOpcodes.DATA, data=lp, source=0x20, destination=0x10, block_number=0, packet_number=1, version=4).as_bytes()
    finally:
        lpm.date = real
    assert HRNP.from_bytes(raw).checksum_correct is True


def test_c17_reject_carrying_text_that_is_no_valid_utf16_does_not_raise():
    from asyncio import DatagramTransport
    from okdmr.dmrlib.protocols.hytera.rrs_datagram_protocol import RRSDatagramProtocol

    class T(DatagramTransport):
        def __init__(self):
            super().__init__()
            self.sent = []

        def sendto(self, data, addr=None):
            self.sent.append(bytes(data))

        def is_closing(self):
            return False

    p, t = RRSDatagramProtocol(port=1), T()
    p.connection_made(t)
    p.datagram_received(bytes.fromhex("3242001000030900a1000f000000010a0000020a00000100d8415103"), ("192.0.2.1", 1))


def test_c19_reflected_crc_leaves_the_callers_bitarray_alone():
    import zlib
    from bitarray import bitarray
    from okdmr.dmrlib.etsi.crc.crc import BitCrcCalculator, BitCrcConfiguration

    cfg = BitCrcConfiguration(width_bits=32, polynomial=0x04C11DB7, init_value=0xFFFFFFFF, final_xor_value=0xFFFFFFFF, reverse_input_bytes=True, reverse_output_bytes=True)
    data = bytes.fromhex("b38f0aaccb")
    b = bitarray()
    b.frombytes(data)
    first = BitCrcCalculator(cfg).calculate_checksum(b)
    assert b.tobytes() == data
    assert int(first.to01(), 2) == zlib.crc32(data)
    assert BitCrcCalculator(cfg).calculate_checksum(b) == first

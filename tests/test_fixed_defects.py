"""Plain replays (no explorer) of the defects found by the checks and repaired by `fix:` commits in /repo.
Run: /venv/bin/python -m pytest -q /verif/tests  (each test fails on the pinned pre-fix tree)."""


def test_c17_ack_of_connect_is_not_answered():
    from asyncio import DatagramTransport
    from okdmr.dmrlib.protocols.hytera.rrs_datagram_protocol import RRSDatagramProtocol

    class T(DatagramTransport):
        def __init__(self):
            super().__init__()
            self.sent = []

        def sendto(self, data, addr=None):
            self.sent.append(bytes(data))

        def is_closing(self):
            return False

    p, t = RRSDatagramProtocol(port=1), T()
    p.connection_made(t)
    p.datagram_received(bytes.fromhex("324200050000"), ("192.0.2.1", 1))  # CONNECT|ACK
    assert t.sent == []
    p.datagram_received(bytes.fromhex("324200040000"), ("192.0.2.1", 1))  # CONNECT
    assert t.sent == [bytes.fromhex("324200050000")]


def _tracker_with_recorder():
    import sys, os
    sys.path.insert(0, os.path.dirname(os.path.dirname(os.path.abspath(__file__))))
    from mc import env  # noqa: F401
    import checks.c08_tracker as c

    if not c.ALPHA:
        c.parse_alphabet()
    from okdmr.dmrlib.transmission.terminal import Terminal

    rec = c.Recorder("t")
    return c, Terminal(dmrid=1, observers=[rec]), rec


def test_c08_data_block_after_voice_header_does_not_end_data():
    import copy

    c, term, rec = _tracker_with_recorder()
    for name in ("VH", "R12_0"):
        term.process_incoming_burst(copy.deepcopy(c.PARSED[name]), 1)
    assert [(e[0], e[1]) for e in rec.events] in ([("started", "V"), ("ended", "V")], [("started", "V")])


def test_c08_short_udp_ip_payload_does_not_raise():
    import copy

    c, term, rec = _tracker_with_recorder()
    for name in ("DH_IP1", "R12_0"):
        term.process_incoming_burst(copy.deepcopy(c.PARSED[name]), 1)
    assert [(e[0], e[1]) for e in rec.events] == [("started", "D"), ("ended", "D")]
    assert term.timeslots[1].transmission.type.name == "Idle"

SPECIFICATION Spec
CONSTANT Budget = 2
INVARIANT TypeOK
INVARIANT DiesOut
INVARIANT NoStrayKinds

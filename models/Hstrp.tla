---------------------------- MODULE Hstrp ----------------------------
(* The acknowledgement discipline C17 states, for two HSTRP/RRS handlers wired back to back.
   Everything is an integer or a sequence so that the transitions TLC prints can be read back without a TLA+ value parser:
     handler h in 1..2;  message id m in 1..20:  m-1 = (to-1)*10 + kind*2 + ack,  kind 0 CONNECT, 1 CLOSE, 2 DATA, 3 REG, 4 HEARTBEAT
   Every transition TLC generates is printed ("E", state, action, message, state') and replayed against the real handlers by
   checks/c17_tla.py: the model is bound to the code transition by transition. *)
EXTENDS Naturals, Sequences, TLC
CONSTANT Budget
VARIABLES connected, net, reg, budget, quiet, answers
vars == <<connected, net, reg, budget, quiet, answers>>

N == 20
To(m)   == ((m - 1) \div 10) + 1
Kind(m) == ((m - 1) % 10) \div 2
Ack(m)  == (m - 1) % 2
Id(to, k, a) == (to - 1) * 10 + k * 2 + a + 1
Other(h) == 3 - h

\* what an application may send to handler 1: connect / close / data with or without the ACK bit, a registration, a heartbeat
Injectable == {Id(1, k, a) : k \in 0..2, a \in 0..1} \cup {Id(1, 3, 0), Id(1, 4, 0)}

\* what the receiving handler sends to its peer: nothing for anything that carries the ACK bit (an acknowledgement is never answered),
\* nothing that travels on for a heartbeat (the echo is counted, not re-delivered), one bare acknowledgement for connect / close / data,
\* and for a registration the acknowledgement; the success answer it also sends is an application-level message for the radio side, it
\* leaves the closed system and is counted in `answers` (the pinned library emits it with the option bit set but without an option
\* chain, so a peer handler cannot decode it - DESIGN.md 9.3 - and the statement does not ask a handler to answer it)
Answers(m) == IF Ack(m) = 1 THEN {}
              ELSE IF Kind(m) = 4 THEN {}
              ELSE IF Kind(m) = 3 THEN {Id(Other(To(m)), 2, 1)}
              ELSE IF Kind(m) = 2 THEN {Id(Other(To(m)), 2, 1)}
              ELSE {Id(Other(To(m)), Kind(m), 1)}

Add(n, S) == [i \in 1..N |-> n[i] + (IF i \in S THEN 1 ELSE 0)]

Init == /\ connected \in {<<FALSE, FALSE>>, <<TRUE, TRUE>>, <<TRUE, FALSE>>}
        /\ net = [i \in 1..N |-> 0]
        /\ reg = <<FALSE, FALSE>>
        /\ budget = Budget
        /\ quiet = 0
        /\ answers = 0

Inject(m) == /\ budget > 0
             /\ net' = Add(net, {m})
             /\ budget' = budget - 1
             /\ quiet' = 0
             /\ UNCHANGED <<connected, reg, answers>>
             /\ PrintT(<<"E", connected, net, reg, budget, quiet, answers, "I", m, connected', net', reg', budget', quiet', answers'>>)

Deliver(m) == /\ net[m] > 0
              /\ net' = Add([net EXCEPT ![m] = @ - 1], Answers(m))
              /\ connected' = [connected EXCEPT ![To(m)] = IF Kind(m) = 0 THEN TRUE ELSE IF Kind(m) = 1 THEN FALSE ELSE @]
              /\ reg' = [reg EXCEPT ![To(m)] = IF Kind(m) = 3 THEN TRUE ELSE @]
              /\ quiet' = quiet + 1
              /\ answers' = answers + (IF Kind(m) = 3 /\ Ack(m) = 0 THEN 1 ELSE 0)
              /\ UNCHANGED budget
              /\ PrintT(<<"E", connected, net, reg, budget, quiet, answers, "D", m, connected', net', reg', budget', quiet', answers'>>)

Next == (\E m \in Injectable : Inject(m)) \/ (\E m \in 1..N : Deliver(m))
Spec == Init /\ [][Next]_vars

\* the statement's consequences, checked by TLC on every reachable state
TypeOK == /\ \A i \in 1..N : net[i] \in 0..(3 * Budget)
          /\ budget \in 0..Budget
\* two handlers cannot ping-pong: an injected message causes at most 2 deliveries (itself and its acknowledgement)
DiesOut == quiet <= 2 * Budget /\ answers <= Budget
\* nothing in flight is a heartbeat towards handler 2 or carries both ACK and HEARTBEAT
NoStrayKinds == \A i \in 1..N : (Kind(i) = 4 /\ (Ack(i) = 1 \/ To(i) = 2)) => net[i] = 0
=============================================================================

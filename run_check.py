"""CLI: run one property check against /repo's working tree."""
import argparse
import importlib
import json
import os
import sys
import traceback

HERE = os.path.dirname(os.path.abspath(__file__))
sys.path.insert(0, HERE)
from mc import env  # noqa: E402  (must precede okdmr imports)

CHECKS = {
    "C01": "checks.c01_burst",
    "C02": "checks.c02_bptc",
    "C03": "checks.c03_pdus",
    "C04": "checks.c04_integrity",
    "C05": "checks.c05_crc",
    "C06": "checks.c06_blockcodes",
    "C07": "checks.c07_generator",
    "C08": "checks.c08_tracker",
    "C09": "checks.c09_vbptc",
    "C10": "checks.c10_trellis",
    "C11": "checks.c11_rs",
    "C12": "checks.c12_hytera",
    "C13": "checks.c13_ipsc",
    "C14": "checks.c14_varint",
    "C15": "checks.c15_mbxml",
    "C16": "checks.c16_tms_ars",
    "C17": "checks.c17_hstrp",
    "C18": "checks.c18_p2p_rdac",
    "C19": "checks.c19_purity",
    "C20": "checks.c20_storage",
}


def hostile_environment():
    tz = os.environ.get("TZ", "UTC")
    other = {"Pacific/Kiritimati": "America/Adak", "America/Adak": "Pacific/Kiritimati", "Europe/Prague": "America/St_Johns"}.get(tz, "America/Adak")
    return {"VERIF_PYOPT": "1", "VERIF_HOSTILE": "1", "TZ": other, "VERIF_TZ": other, "PYTHONHASHSEED": "4242"}


def hostile_pass(pid, a):
    """Second pass of the same check in a deliberately different process environment.  The properties do not depend on the
    environment, so every execution of the quick-tier space is repeated against the same oracles with
      * the interpreter started with -O (assert statements and `if __debug__` blocks stripped),
      * the process time zone on the other side of UTC than the main pass (a zone with daylight saving),
      * every logger enabled down to DEBUG with a handler that formats each record,
      * Python Development Mode (-X dev: codec and error-handler names are checked on every call, ...),
      * warnings turned into errors (-W error; not -bb: the pinned tree itself formats bytes into log and error texts),
      * the decimal context of the process lowered to 6 digits,
      * another PYTHONHASHSEED.
    Its coverage is appended to the evidence of the main pass; a violation found only there is reported like any other (the replay
    file carries the environment and is replayed in it)."""
    import subprocess

    edir = os.environ.get("VERIF_EVIDENCE_DIR") or os.path.join(HERE, "evidence")
    import shutil
    import tempfile

    odir = tempfile.mkdtemp(prefix=f"verif-{pid}-optimised-")  # scratch, removed below
    cmd = [sys.executable, "-O", "-X", "dev", "-W", "error", "-B", os.path.abspath(__file__), pid, "--tier", "quick"]
    if a.only:
        cmd += ["--only", a.only]
    child_env = dict(os.environ, **hostile_environment(), VERIF_TIER="quick", VERIF_EVIDENCE_DIR=odir, VERIF_REPLAY_TAG="H")
    print(f"[{pid}] second pass in the hostile environment: python -O, TZ={child_env['TZ']}, DEBUG logging, PYTHONHASHSEED={child_env['PYTHONHASHSEED']} (quick-tier bounds)", flush=True)
    p = subprocess.Popen(cmd, stdout=subprocess.PIPE, stderr=subprocess.STDOUT, text=True, env=child_env, cwd=HERE)
    for line in p.stdout:
        line = line.rstrip("\n")
        if line.startswith(("VIOLATION ", "KNOWN-FINDING:", "INTERNAL-ERROR")):
            print(line, flush=True)
        else:
            print("  [hostile] " + line, flush=True)
    rc = p.wait()
    main_path = os.path.join(edir, f"{pid}.json")
    try:
        with open(os.path.join(odir, f"{pid}.json")) as f:
            od = json.load(f)
        with open(main_path) as f:
            md = json.load(f)
        oc = od["coverage"]
        md["coverage"]["hostile_environment_pass"] = {
            "interpreter_flags": "-O", "environment": oc.get("process_environment"), "tier_bounds": "quick", "exit_code": rc,
            "states": oc["states"], "transitions": oc["transitions"], "traces_validated_against_impl": oc["traces_validated_against_impl"],
            "evaluations": oc["evaluations"], "distinct_nontrivial": oc["distinct_nontrivial"], "exhaustive": oc["exhaustive"],
            "new_violation_signatures": oc["new_violation_signatures"], "known_findings_seen": oc["known_findings_seen"],
            "internal_errors": oc["internal_errors"], "wall_s": od["wall_s"],
        }
        md["violations"] = md.get("violations", 0) + od.get("violations", 0)
        md["wall_s"] = round(md.get("wall_s", 0) + od.get("wall_s", 0), 3)
        with open(main_path, "w") as f:
            json.dump(md, f, indent=1)
    except Exception as e:  # noqa: BLE001
        if rc == 1:
            # the library raised outside any guarded case in that pass (reported above with its own VIOLATION line): no coverage figures
            # exist for it, the verdict stands
            try:
                with open(main_path) as f:
                    md = json.load(f)
                md["coverage"]["hostile_environment_pass"] = {"interpreter_flags": "-O -X dev -W error", "tier_bounds": "quick", "exit_code": 1,
                                                              "note": "the library raised on an in-domain input outside any guarded case; see the replay file of the VIOLATION line"}
                md["violations"] = md.get("violations", 0) + 1
                with open(main_path, "w") as f:
                    json.dump(md, f, indent=1)
            except Exception:  # noqa: BLE001
                pass
        else:
            print(f"INTERNAL-ERROR: hostile-environment pass left no evidence ({e!r})")
            rc = 2
    finally:
        shutil.rmtree(odir, ignore_errors=True)
    return rc


def main():
    ap = argparse.ArgumentParser()
    ap.add_argument("pid")
    ap.add_argument("--tier", choices=["quick", "thorough"], default=None)
    ap.add_argument("--replay", default=None)
    ap.add_argument("--only", default=None, help="comma list of sub-checks (debugging; evidence marked partial)")
    a = ap.parse_args()
    if a.tier:
        os.environ["VERIF_TIER"] = a.tier
    pid = a.pid.upper()
    if pid not in CHECKS:
        print(f"unknown property {pid}")
        return 2
    try:
        env.assert_repo_import()
        mod = importlib.import_module(CHECKS[pid])
    except Exception:
        traceback.print_exc()
        print(f"INTERNAL-ERROR: cannot load check {pid}")
        return 2
    if a.replay:
        with open(a.replay) as f:
            doc = json.load(f)
        if doc.get("python_optimize") and not sys.flags.optimize:
            # the counterexample was found in the hostile-environment pass: replay it there
            os.execve(sys.executable, [sys.executable, "-O", "-B", os.path.abspath(__file__)] + sys.argv[1:], dict(os.environ, **hostile_environment()))
        if not hasattr(mod, "replay"):
            print("this check has no replay function")
            return 2
        return int(mod.replay(doc) or 0)
    only = set(a.only.split(",")) if a.only else None
    try:
        rc = int(mod.run(only=only))
        if rc == 0 and not sys.flags.optimize and not os.environ.get("VERIF_SKIP_OPT_PASS"):
            rc = hostile_pass(pid, a)
        return rc
    except Exception as e:
        traceback.print_exc()
        tb = traceback.extract_tb(e.__traceback__)
        # innermost frame that belongs to the library or to the harness (frames of the standard library / third-party packages that the
        # library called into are skipped: a warning-turned-error or a codec lookup raised *for* the library)
        inner = ""
        for fr in reversed(tb):
            if "/okdmr/" in fr.filename or "/verif/" in fr.filename:
                inner = fr.filename
                break
        worker_in_lib = getattr(e, "in_library", False)
        if worker_in_lib or ("/okdmr/" in inner and "/verif/" not in inner):
            # the exception was raised *inside the library* while the harness was preparing or running cases on inputs the
            # property covers (on the unchanged tree this never happens): report it, do not hide it behind a checker crash
            from mc.report import exc_sig as _exc_sig

            exc_sig = (lambda _e: getattr(_e, "sig", "")) if worker_in_lib else _exc_sig
            rdir = os.environ.get("VERIF_REPLAY_DIR") or os.path.join(HERE, "replays")
            os.makedirs(rdir, exist_ok=True)
            path = os.path.join(rdir, f"{pid}-{os.environ.get('VERIF_REPLAY_TAG', '')}crash.json")
            with open(path, "w") as f:
                json.dump({"property": pid, "check": "harness", "python_optimize": bool(sys.flags.optimize), "sig": "library_raised_while_preparing_cases:" + exc_sig(e),
                           "what": "the library raised on an in-domain input outside any guarded case", "traceback": traceback.format_exc()[-4000:]}, f, indent=1)
            print(f"  violation sig=harness:library_raised_while_preparing_cases:{exc_sig(e)} count=1 {e!r}")
            print(f"VIOLATION property={pid} replay={path}")
            return 1
        print(f"INTERNAL-ERROR: check {pid} crashed (checker bug or import failure), no verdict")
        return 2


if __name__ == "__main__":
    sys.exit(main())

"""Burst assembly helpers shared by C01 / C07 / C08: bursts are assembled the only way the
library offers (the way TransmissionGenerator does) and serialised to 33 bytes."""
from bitarray import bitarray
from bitarray.util import int2ba

from okdmr.dmrlib.etsi.layer2.burst import Burst
from okdmr.dmrlib.etsi.layer2.elements.burst_types import BurstTypes
from okdmr.dmrlib.etsi.layer2.elements.csbk_opcodes import CsbkOpcodes
from okdmr.dmrlib.etsi.layer2.elements.data_packet_formats import DataPacketFormats
from okdmr.dmrlib.etsi.layer2.elements.data_types import DataTypes
from okdmr.dmrlib.etsi.layer2.elements.feature_set_ids import FeatureSetIDs
from okdmr.dmrlib.etsi.layer2.elements.flcos import FLCOs
from okdmr.dmrlib.etsi.layer2.elements.sap_identifier import SAPIdentifier
from okdmr.dmrlib.etsi.layer2.elements.sync_patterns import SyncPatterns
from okdmr.dmrlib.etsi.layer2.pdu.csbk import CSBK
from okdmr.dmrlib.etsi.layer2.pdu.data_header import DataHeader
from okdmr.dmrlib.etsi.layer2.pdu.embedded_signalling import EmbeddedSignalling
from okdmr.dmrlib.etsi.layer2.pdu.full_link_control import FullLinkControl
from okdmr.dmrlib.etsi.layer2.pdu.slot_type import SlotType
from okdmr.dmrlib.etsi.layer3.elements.service_options import ServiceOptions

DATA_SYNCS = [SyncPatterns.BsSourcedData, SyncPatterns.MsSourcedData, SyncPatterns.Tdma1Data, SyncPatterns.Tdma2Data]
VOICE_SYNCS = [SyncPatterns.BsSourcedVoice, SyncPatterns.MsSourcedVoice, SyncPatterns.Tdma1Voice, SyncPatterns.Tdma2Voice]


def assemble_data_burst(pdu, data_type: DataTypes, cc: int = 1, sync: SyncPatterns = SyncPatterns.BsSourcedData) -> Burst:
    b = Burst(full_bits=bitarray([0] * 264), burst_type=BurstTypes.DataAndControl)
    b.has_emb = False
    b.sync_or_embedded_signalling = sync
    b.slot_type = SlotType(colour_code=cc, data_type=data_type)
    b.data = pdu
    return b


def data_burst_bytes(pdu, data_type, cc=1, sync=SyncPatterns.BsSourcedData) -> bytes:
    return assemble_data_burst(pdu, data_type, cc, sync).as_bytes()


def voice_burst_bits(vocoder216: bitarray, center48: bitarray) -> bitarray:
    assert len(vocoder216) == 216 and len(center48) == 48
    return vocoder216[:108] + center48 + vocoder216[108:]


def voice_sync_bits(vocoder216: bitarray, sync: SyncPatterns = SyncPatterns.BsSourcedVoice) -> bitarray:
    return voice_burst_bits(vocoder216, int2ba(sync.value, length=48))


def voice_emb_bits(vocoder216: bitarray, cc: int, pi: int, lcss: int, emb32: bitarray) -> bitarray:
    e = EmbeddedSignalling(colour_code=cc, preemption_and_power_control_indicator=pi, link_control_start_stop=lcss).as_bits()
    assert len(e) == 16 and len(emb32) == 32
    return voice_burst_bits(vocoder216, e[:8] + emb32 + e[8:])


def rs_parity(info72: bitarray, mask: bytes) -> bitarray:
    from okdmr.dmrlib.etsi.fec.reed_solomon_12_9_4 import ReedSolomon1294

    full = ReedSolomon1294.generate(info72.tobytes(), mask)
    out = bitarray()
    out.frombytes(full[9:])
    return out


def flc_group(source=2301234, group=91, so=0, terminator=False, fid=FeatureSetIDs.StandardizedFID) -> FullLinkControl:
    flc = FullLinkControl(protect_flag=0, flco=FLCOs.GroupVoiceChannelUser, fid=fid, crc=bitarray([0] * 24),
                          service_options=ServiceOptions.from_bits(int2ba(so, length=8)), group_address=group, source_address=source)
    flc.crc = rs_parity(flc.as_bits()[:72], b"\x99\x99\x99" if terminator else b"\x96\x96\x96")
    return flc


def flc_unit(source=2301234, target=2305678, so=0, terminator=False) -> FullLinkControl:
    flc = FullLinkControl(protect_flag=0, flco=FLCOs.UnitToUnitVoiceChannelUser, fid=FeatureSetIDs.StandardizedFID, crc=bitarray([0] * 24),
                          service_options=ServiceOptions.from_bits(int2ba(so, length=8)), target_address=target, source_address=source)
    flc.crc = rs_parity(flc.as_bits()[:72], b"\x99\x99\x99" if terminator else b"\x96\x96\x96")
    return flc


def preamble_csbk(btf, source=2301234, target=2305678) -> CSBK:
    return CSBK(source_address=source, target_address=target, blocks_to_follow=btf, csbko=CsbkOpcodes.PreambleCSBK,
                target_address_is_individual=True, last_block=True)


def unconfirmed_header(btf, poc=0, sap=SAPIdentifier.ShortData, src=2301234, dst=2305678, confirmed=False, is_group=False, **kw) -> DataHeader:
    return DataHeader(dpf=DataPacketFormats.DataPacketConfirmed if confirmed else DataPacketFormats.DataPacketUnconfirmed,
                      is_group=is_group, is_response_requested=confirmed, pad_octet_count=poc, sap_identifier=sap,
                      llid_destination=dst, llid_source=src, blocks_to_follow=btf, **kw)

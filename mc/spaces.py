"""Finite-space builders (stable order, known size). Bit strings are Python ints or
'0'/'1' strings; position 0 is the first (left-most / first transmitted) bit."""
import itertools


def all_words(n):
    return range(1 << n)


def bits_of(v, n):
    return format(v, f"0{n}b") if n else ""


def unit(n, i):
    """n-bit string with only bit i set (i counted from the left)"""
    return "0" * i + "1" + "0" * (n - i - 1)


def flip(s, positions):
    l = list(s)
    for p in positions:
        l[p] = "1" if l[p] == "0" else "0"
    return "".join(l)


def complement(s):
    return s.translate(str.maketrans("01", "10"))


def weight_le(n, k):
    """all position-tuples of weight <= k over n positions (weight ascending)"""
    for w in range(k + 1):
        yield from itertools.combinations(range(n), w)


def n_weight_le(n, k):
    import math

    return sum(math.comb(n, w) for w in range(k + 1))


def bursts_le(n, w):
    """all error patterns (as position tuples) whose first and last set bit are < w apart,
    weight >= 1; each pattern exactly once"""
    for start in range(n):
        # pattern has bit `start` set; remaining bits anywhere in start+1 .. start+w-1
        span = min(w - 1, n - start - 1)
        for mask in range(1 << span):
            yield (start,) + tuple(start + 1 + j for j in range(span) if (mask >> j) & 1)


def small_scope_messages(n, weight=1, extra=()):
    """0, all weight<=`weight` vectors, their complements, 0101../1010.. fills, extras (deduplicated, ordered)"""
    seen = set()
    out = []

    def add(s):
        if s not in seen:
            seen.add(s)
            out.append(s)

    for pos in weight_le(n, weight):
        s = flip("0" * n, pos)
        add(s)
        add(complement(s))
    add(("01" * n)[:n])
    add(("10" * n)[:n])
    for e in extra:
        add(e)
    return out


def field_alphabet(width, full_upto=8):
    """every value if width <= full_upto; else boundary + walking ones/zeros + 0x55/0xAA fills"""
    if width <= full_upto:
        return list(range(1 << width))
    m = (1 << width) - 1
    vals = [0, 1, 2, m, m - 1, 1 << (width - 1), (1 << (width - 1)) - 1]
    vals.append(int(("01" * width)[:width], 2))
    vals.append(int(("10" * width)[:width], 2))
    for i in range(width):
        vals.append(1 << i)
        vals.append(m ^ (1 << i))
    seen = set()
    out = []
    for v in vals:
        if v not in seen and 0 <= v <= m:
            seen.add(v)
            out.append(v)
    return out


def product_size(alphabets):
    n = 1
    for a in alphabets:
        n *= len(a)
    return n


def one_at_a_time_and_pairs(fields, bases):
    """fields: dict name -> alphabet(list); bases: list of dict name->value (base assignments).
    Yields assignments: each base; each base with one field varied over its alphabet; each base with
    every pair of fields varied over the product of their alphabets (deduplicated)."""
    names = list(fields)
    seen = set()

    def emit(d):
        k = tuple(d[n] if not isinstance(d[n], (list, dict, bytearray)) else repr(d[n]) for n in names)
        try:
            hash(k)
        except TypeError:
            k = repr(k)
        if k in seen:
            return None
        seen.add(k)
        return dict(d)

    for b in bases:
        r = emit(b)
        if r:
            yield r
        for n in names:
            for v in fields[n]:
                d = dict(b)
                d[n] = v
                r = emit(d)
                if r:
                    yield r
    for b in bases:
        for n1, n2 in itertools.combinations(names, 2):
            for v1 in fields[n1]:
                for v2 in fields[n2]:
                    d = dict(b)
                    d[n1] = v1
                    d[n2] = v2
                    r = emit(d)
                    if r:
                        yield r

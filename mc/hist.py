"""History helpers: the caller owns what a codec call returns.  After a result has been compared, the harness overwrites
it in place; a later call with the same input must be unaffected (cached / shared result objects show up as history
dependence)."""
import enum

from bitarray import bitarray


def scribble(res, depth=0):
    """overwrite every mutable *buffer* reachable from a result"""
    try:
        if isinstance(res, bitarray):
            res.invert()
            res.extend("1011")
        elif isinstance(res, bytearray):
            for i in range(len(res)):
                res[i] ^= 0xFF
            res.extend(b"\xa5")
        elif isinstance(res, list) and depth < 3:
            for x in res:
                scribble(x, depth + 1)
            res.append("scribble")
        elif isinstance(res, dict) and depth < 3:
            for x in list(res.values()):
                scribble(x, depth + 1)
            res["scribble"] = 1
        elif isinstance(res, tuple) and depth < 3:
            for x in res:
                scribble(x, depth + 1)
        elif type(res).__module__ == "numpy" and hasattr(res, "fill"):
            res.fill(1)
        elif type(res).__name__ == "array" and hasattr(res, "typecode"):
            for i in range(len(res)):
                res[i] = 1
    except Exception:  # noqa: BLE001  (read-only results are fine)
        pass


def scramble(o, depth=0, _seen=None, public_only=False):
    """rewrite the attributes of a parsed *object* in place (ints, bools, bytes, strings, buffers, containers, nested objects);
    enum members and classes are left alone (they are shared by design); public_only: attributes whose name starts with an
    underscore are the library's own business and are left alone"""
    if _seen is None:
        _seen = set()
    if id(o) in _seen or depth > 4:
        return
    _seen.add(id(o))
    if isinstance(o, (bitarray, bytearray, list, dict)) or type(o).__module__ == "numpy":
        if isinstance(o, list):
            for x in list(o):
                scramble(x, depth + 1, _seen, public_only)
        scribble(o)
        return
    if isinstance(o, (enum.Enum, type)) or o is None or isinstance(o, (int, float, str, bytes, tuple, frozenset)):
        return
    d = getattr(o, "__dict__", None)
    if not isinstance(d, dict):
        return
    for k, v in list(d.items()):
        if public_only and isinstance(k, str) and k.startswith("_"):
            continue
        try:
            if isinstance(v, bool):
                d[k] = not v
            elif isinstance(v, int):
                d[k] = v ^ 0x55 if v >= 0 else -v
            elif isinstance(v, float):
                d[k] = v + 1.25
            elif isinstance(v, bytes):
                d[k] = b"\x7e" + v[::-1]
            elif isinstance(v, str):
                d[k] = v[::-1] + "~"
            elif isinstance(v, tuple):
                for x in v:
                    scramble(x, depth + 1, _seen, public_only)
            else:
                scramble(v, depth + 1, _seen, public_only)
        except Exception:  # noqa: BLE001
            pass


def scramble_shallow(o, depth=0):
    """in-place writes into the buffers and lists a returned object owns (not into dicts / nested definition tables, which may
    be shared class-level data by design): bitarray / bytearray attributes, list attributes and the same one level down"""
    if depth > 2 or o is None or isinstance(o, (enum.Enum, type, int, float, str, bytes, frozenset)):
        return
    if isinstance(o, (bitarray, bytearray)) or type(o).__module__ == "numpy":
        scribble(o)
        return
    if isinstance(o, (list, tuple)):
        for x in list(o):
            scramble_shallow(x, depth + 1)
        if isinstance(o, list):
            o.append("scribble")
        return
    d = getattr(o, "__dict__", None)
    if not isinstance(d, dict):
        return
    for k, v in list(d.items()):
        if isinstance(v, (bitarray, bytearray, list, tuple)) or type(v).__module__ == "numpy":
            scramble_shallow(v, depth + 1)
        elif hasattr(v, "__dict__") and not isinstance(v, (enum.Enum, type)) and not callable(v):
            scramble_shallow(v, depth + 1)


# ----------------------------------------------------------------------------------------------
# long call histories of stateless codecs
# ----------------------------------------------------------------------------------------------
def hidden_state(*owners):
    """digest of the data (not code) held at class / module level by the given classes and modules"""
    import types
    from . import canon as _canon

    items = {}
    for o in owners:
        for k, v in sorted(vars(o).items()):
            if k.startswith("__"):
                continue
            f = v.__func__ if isinstance(v, (staticmethod, classmethod)) else v
            if isinstance(f, types.FunctionType):
                # data a function carries with it: default argument objects, function attributes, closure cells
                cells = []
                for c in f.__closure__ or ():
                    try:
                        cv = c.cell_contents
                    except ValueError:
                        continue
                    if not callable(cv) and not isinstance(cv, (type, types.ModuleType)):
                        cells.append(cv)
                carried = (f.__defaults__, f.__kwdefaults__, {a: b for a, b in f.__dict__.items() if not callable(b)}, cells)
                try:
                    items[f"{getattr(o, '__name__', o)}.{k}()"] = _canon.digest(carried)
                except Exception:  # noqa: BLE001
                    pass
                continue
            if isinstance(v, (staticmethod, classmethod, property, type, types.ModuleType, types.FunctionType, types.BuiltinFunctionType)) or callable(v):
                continue
            try:
                items[f"{getattr(o, '__name__', o)}.{k}"] = _canon.digest(v)
            except Exception:  # noqa: BLE001
                items[f"{getattr(o, '__name__', o)}.{k}"] = repr(type(v))
    return items


LONG_N = (1 << 16) + 256  # crosses every 8- and 16-bit boundary a per-call counter or index could have


def long_history(s, owners, thunks, always, deadline_s=240.0, n=LONG_N):
    """`thunks`: list of (label, callable) -- each callable performs one valid library call on fixed input and returns a hashable /
    comparable observation.  Calling them must not change what a later call returns, however many calls came before.

    A stateless codec has the same class/module-level data after a call as before it.  When that is observed to hold (and `always`
    is false) the history is explored to depth 3 only; when a call is seen to leave a trace in class/module data -- or `always`
    (thorough tier) -- every thunk is called LONG_N times in this one process.  Only a different observation or an exception on
    the valid input is a violation: the trace by itself is not."""
    import time
    from .report import exc_sig

    t0 = time.perf_counter()
    want = {}
    for lab, f in thunks:
        try:
            want[lab] = f()
        except Exception as e:  # noqa: BLE001
            s.violation(f"long_history:exception_on_first_call:{lab}:" + exc_sig(e), {"call": lab}, repr(e))
            return
    # the same calls made from another thread than the one that imported the library (one after the other -- no concurrency): a
    # call's result does not depend on which thread makes it
    import threading

    for lab, f in thunks:
        box = {}

        def run(f=f, box=box):
            try:
                box["r"] = f()
            except BaseException as e:  # noqa: BLE001
                box["e"] = e

        t = threading.Thread(target=run)
        t.start()
        t.join()
        if "e" in box:
            s.violation(f"long_history:exception_when_called_from_another_thread:{lab}:" + exc_sig(box["e"]), {"call": lab}, repr(box["e"]))
        elif box.get("r") != want[lab]:
            s.violation(f"long_history:result_differs_when_called_from_another_thread:{lab}", {"call": lab})
        s.case(nontrivial=True, calls=1, outcome="other_thread")
    before = hidden_state(*owners)
    for lab, f in thunks:
        for _ in range(2):
            try:
                if f() != want[lab]:
                    s.violation(f"long_history:result_changes_with_call_count:{lab}", {"call": lab, "calls_before": 1})
            except Exception as e:  # noqa: BLE001
                s.violation(f"long_history:exception_after_earlier_calls:{lab}:" + exc_sig(e), {"call": lab, "calls_before": 1}, repr(e))
            s.case(nontrivial=True, calls=1, outcome="short", sample={"call": lab, "calls_before": 1} if len(s.samples) < 1 else None)
    after = hidden_state(*owners)
    changed = sorted(k for k in set(before) | set(after) if before.get(k) != after.get(k))
    s.extra["class_or_module_data_changed_by_a_call"] = changed
    deep = always or bool(changed)
    s.extra["long_history_calls_per_entry_point"] = n if deep else 3
    if not deep:
        return
    from . import par
    from .report import Acc

    def deep(idx):
        # one forked child per entry point: its own process history, all entry points in parallel
        lab, f = thunks[idx]
        acc = Acc()
        cap = None
        for i in range(3, n):
            bad = False
            try:
                r = f()
                if r != want[lab]:
                    acc.violation(f"long_history:result_changes_with_call_count:{lab}", {"call": lab, "calls_before": i},
                                  f"call number {i + 1} of {lab} in one process returns something else than the first call on the same input")
                    bad = True
            except Exception as e:  # noqa: BLE001
                acc.violation(f"long_history:exception_after_earlier_calls:{lab}:" + exc_sig(e), {"call": lab, "calls_before": i},
                              f"call number {i + 1} of {lab} in one process raises on valid input: {e!r}")
                bad = True
            acc.case(nontrivial=(i & (i - 1)) == 0 or (i & 0xFF) in (0, 0xFF), calls=1, outcome=("pow2" if (i & (i - 1)) == 0 else "long"))
            if bad:
                break
            if (i & 0x3FF) == 0 and time.perf_counter() - t0 > deadline_s:
                cap = i
                break
        return acc, lab, cap

    for acc, lab, cap in par.pmap(deep, list(range(len(thunks))), len(thunks)):
        s.merge(acc)
        if cap is not None:
            s.extra.setdefault("long_history_capped_at", {})[lab] = cap
            s.exhaustive = False


def poisoned_histories(s, funcs, bad_args, probes, nchildren=4):
    """Histories of length 2 whose first call is *outside* the documented domain.

    funcs: {name: callable}; bad_args: [(label, maker)]; probes: [(label, thunk)] -- thunks are valid calls returning a comparable
    observation.  Whatever the out-of-range call does (return, raise) is accepted; every probe run afterwards must give what it
    gave before any such call.  Runs in forked children (so nothing leaks into the rest of the run); a child stops at its first
    failing case because everything after it would blame the wrong call."""
    from . import par
    from .report import Acc, exc_sig

    want = []
    for lab, th in probes:
        want.append(th())
    names = list(funcs)

    def work(fns):
        acc = Acc()
        for fn in fns:
            for lab, mk in bad_args:
                case = {"first_call": f"{fn}({lab})"}
                outcome = "returned"
                try:
                    funcs[fn](mk())
                except Exception as e:  # noqa: BLE001
                    outcome = type(e).__name__
                for (plab, th), w in zip(probes, want):
                    try:
                        if th() != w:
                            acc.violation(f"valid_call_differs_after_out_of_range_call:{plab}", case,
                                          f"{plab} gives another result after {case['first_call']}")
                    except Exception as e:  # noqa: BLE001
                        acc.violation(f"valid_call_raises_after_out_of_range_call:{plab}:" + exc_sig(e), case,
                                      f"{plab} raises after {case['first_call']}: {e!r}")
                acc.case(nontrivial=True, calls=1 + len(probes), outcome=outcome, sample=case if len(acc.samples) < 2 else None)
                if acc.viol:
                    return acc
        return acc

    for acc in par.pmap(work, par.split_list(names, nchildren), nchildren):
        s.merge(acc)
    if not s.viol:
        s.declared = len(names) * len(bad_args)


def bit_containers(bits01):
    """the same bit string in the containers a caller may hold it in (plain big-endian bitarray excluded): yields (kind, object,
    keepalive)"""
    from bitarray import frozenbitarray

    plain = bitarray(bits01)
    yield "frozenbitarray", frozenbitarray(plain), None
    x = bitarray(bits01)
    yield "bitarray_with_exported_buffer", x, memoryview(x)
    if len(plain) % 8 == 0:
        yield "bitarray_over_readonly_buffer", bitarray(buffer=plain.tobytes()), None
        yield "bitarray_over_writable_buffer", bitarray(buffer=bytearray(plain.tobytes())), None
    else:
        pad = (-len(plain)) % 8
        yield "slice_of_bitarray_over_readonly_buffer", bitarray(buffer=(plain + bitarray("0" * pad)).tobytes())[: len(plain)], None


def observe(obj, extra=(), _depth=0, _seen=None, light=False):
    """Everything a caller may do to *look at* an object between two uses: repr, str, ==, hash, len, bool, iteration, copy, and the
    object's own read-only views (`extra`: method names called without arguments, e.g. "as_xml").  None of it may change what the
    object serialises to afterwards.  Exceptions raised by an observer are not this helper's business (returned, not raised)."""
    import copy as _copy

    if _seen is None:
        _seen = set()
    if id(obj) in _seen or _depth > 3:
        return []
    _seen.add(id(obj))
    raised = []
    lookers = [("repr", repr), ("str", str), ("eq", lambda o: o == o), ("hash", hash), ("len", len), ("bool", bool)]
    if not light:
        lookers += [("ne", lambda o: o != _copy.copy(o)), ("copy", _copy.copy), ("deepcopy", _copy.deepcopy), ("format", lambda o: f"{o}"), ("dir", dir)]
    for name, f in lookers:
        try:
            f(obj)
        except Exception as e:  # noqa: BLE001
            if name in ("repr", "str", "eq", "format"):
                raised.append((name, e))
    for m in extra:
        fn = getattr(obj, m, None)
        if callable(fn):
            try:
                fn()
            except Exception as e:  # noqa: BLE001
                raised.append((m, e))
    d = getattr(obj, "__dict__", None)
    if isinstance(d, dict):
        for v in list(d.values()):
            if hasattr(v, "__dict__") and not isinstance(v, (type, enum.Enum)) and not callable(v):
                raised += observe(v, extra, _depth + 1, _seen, light)
            elif isinstance(v, (list, tuple)):
                for x in v[:8]:
                    if hasattr(x, "__dict__") and not isinstance(x, (type, enum.Enum)) and not callable(x):
                        raised += observe(x, extra, _depth + 1, _seen, light)
    return raised


def kept_results(s, label, thunks, obs=None):
    """The caller keeps what a call returned.  `thunks`: list of (case, callable); every callable is called once, in order, and its
    result is *kept* (nobody writes into it); after the last call every kept result must still be what it was right after its own
    call (a library that hands out its live working object, or one shared result object, fails here)."""
    from .report import exc_sig
    from . import canon as _canon

    if obs is None:
        obs = lambda r: _canon.digest(r)  # noqa: E731
    kept = []
    for case, th in thunks:
        try:
            r = th()
            kept.append((case, r, obs(r)))
        except Exception as e:  # noqa: BLE001
            s.violation(f"exception_in_kept_results:{label}:" + exc_sig(e), case, repr(e))
    changed = 0
    for i, (case, r, o) in enumerate(kept):
        now = None
        try:
            now = obs(r)
        except Exception as e:  # noqa: BLE001
            now = "raises:" + type(e).__name__
        if now != o:
            changed += 1
            s.violation(f"earlier_result_changed_by_a_later_call:{label}", {**case, "position_in_sequence": i, "of": len(kept)},
                        "a result the caller kept (and did not touch) is different after later calls of the library")
        s.case(nontrivial=True, calls=1, outcome=label, sample=case if len(s.samples) < 1 else None)
    distinct = len({id(r) for _, r, _ in kept if not isinstance(r, (int, bool, str, bytes, float, type(None)))})
    s.extra.setdefault("kept_results", {})[label] = {"calls": len(kept), "distinct_result_objects": distinct, "changed": changed}


def many_distinct_inputs(s, owners, entries, always, n=70_000, keep=64, deadline_s=240.0):
    """Capacity: a stateless codec answers the 70 001st *different* input like the first.

    entries: list of (label, make_input(i), call(input) -> comparable observation).  Guided like long_history: three distinct inputs
    are run and the class/module-level data digested before and after; only if a call leaves a trace there (a memo, a ring buffer, a
    statistics table) -- or `always` (thorough tier) -- are n distinct inputs run in one process (one forked child per entry), after
    which the first `keep` inputs are run again and must give what they gave the first time.  Only a different observation or an
    exception is a violation."""
    import time
    from . import par
    from .report import Acc, exc_sig

    t0 = time.perf_counter()
    before = hidden_state(*owners)
    for lab, mk, call in entries:
        for i in range(3):
            try:
                a = call(mk(i))
                b = call(mk(i))
                if a != b:
                    s.violation(f"many_inputs:result_not_repeatable:{lab}", {"call": lab, "input_index": i})
            except Exception as e:  # noqa: BLE001
                s.violation(f"many_inputs:exception:{lab}:" + exc_sig(e), {"call": lab, "input_index": i}, repr(e))
            s.case(nontrivial=True, calls=2, outcome="short", sample={"call": lab, "input_index": i} if len(s.samples) < 1 else None)
    after = hidden_state(*owners)
    changed = sorted(k for k in set(before) | set(after) if before.get(k) != after.get(k))
    s.extra["class_or_module_data_changed_by_distinct_inputs"] = changed
    deep = always or bool(changed)
    s.extra["distinct_inputs_per_entry_point"] = n if deep else 3
    if not deep:
        return

    def run(idx):
        lab, mk, call = entries[idx]
        acc = Acc()
        first = {}
        cap = None
        for i in range(n):
            try:
                r = call(mk(i))
            except Exception as e:  # noqa: BLE001
                acc.violation(f"many_inputs:exception_after_many_distinct_inputs:{lab}:" + exc_sig(e), {"call": lab, "distinct_inputs_before": i}, repr(e))
                break
            if i < keep:
                first[i] = r
            acc.case(nontrivial=(i & 0x3FF) == 0, calls=1, outcome="distinct")
            if (i & 0x3FF) == 0 and time.perf_counter() - t0 > deadline_s:
                cap = i
                break
        for i in sorted(first):
            try:
                if call(mk(i)) != first[i]:
                    acc.violation(f"many_inputs:early_input_answered_differently_after_many_others:{lab}", {"call": lab, "input_index": i, "distinct_inputs_in_between": (cap or n) - i},
                                  "an input gets another answer after tens of thousands of other inputs went through the same entry point")
                    break
            except Exception as e:  # noqa: BLE001
                acc.violation(f"many_inputs:exception_on_early_input_after_many_others:{lab}:" + exc_sig(e), {"call": lab, "input_index": i}, repr(e))
                break
            acc.case(nontrivial=True, calls=1, outcome="again")
        return acc, lab, cap

    for acc, lab, cap in par.pmap(run, list(range(len(entries))), len(entries)):
        s.merge(acc)
        if cap is not None:
            s.extra.setdefault("many_inputs_capped_at", {})[lab] = cap
            s.exhaustive = False


def picklable_entry_points(s, funcs):
    """public functions / static methods can be handed to worker processes (pickled by reference) and are the same function there"""
    import pickle
    from .report import exc_sig

    for name, f in funcs.items():
        try:
            g = pickle.loads(pickle.dumps(f))
            if getattr(g, "__qualname__", None) != getattr(f, "__qualname__", None):
                s.violation(f"entry_point_changes_identity_when_pickled:{name}", {"entry_point": name})
        except Exception as e:  # noqa: BLE001
            s.violation(f"entry_point_cannot_be_handed_to_a_worker_process:{name}:" + type(e).__name__, {"entry_point": name}, repr(e))
        s.case(nontrivial=True, calls=1, outcome="pickle")


def overwrite_in_place(buf, new):
    """give the caller's buffer object `buf` the content of `new` without making a new object"""
    if isinstance(buf, bitarray):
        buf.clear()
        buf.extend(new)
    elif isinstance(buf, (bytearray, list)):
        buf[:] = new
    elif type(buf).__module__ == "numpy":
        buf[...] = new
    else:
        raise TypeError(type(buf).__name__)


def reused_buffer(s, label, entries, obs=None, may_write=()):
    """The caller builds every message in ONE buffer object that it overwrites in place between calls (a frame assembled in a
    pre-allocated bitarray / bytearray, a field counted up, a bit inverted to inject an error).

    entries: list of (name, call(buffer) -> result, inputs, expected) -- `inputs` a list of equal-typed mutable buffers (bitarray,
    bytearray, list, numpy array); `expected` a list of the same length with what the call must return for each (from the check's own
    reference), or None: then the expected observations are taken first, from calls on fresh objects, before the shared buffer exists.
    Then one buffer object takes the content of each input in turn and is passed to the call; the result must be the expected one and
    the buffer must still hold what the caller wrote (except for the entry points named in `may_write`: repair-in-place calls).  A library that remembers the caller's object (a memo keyed by the argument
    object, a "same as last time" shortcut) answers for the previous content here."""
    import copy as _copy
    from .report import exc_sig
    from . import canon as _canon

    if obs is None:
        obs = lambda r: _canon.digest(r)  # noqa: E731
    for name, call, inputs, expected in entries:
        if expected is None:
            expected = []
            for x in inputs:
                try:
                    expected.append(obs(call(_copy.deepcopy(x))))
                except Exception as e:  # noqa: BLE001
                    expected.append("raises:" + type(e).__name__)
        else:
            expected = [obs(e) for e in expected]
        buf = _copy.deepcopy(inputs[0])
        for i, x in enumerate(inputs):
            case = {"entry_point": name, "position_in_sequence": i, "buffer": type(buf).__name__, "input": _canon.canon(x)}
            overwrite_in_place(buf, x)
            try:
                got = obs(call(buf))
            except Exception as e:  # noqa: BLE001
                got = "raises:" + type(e).__name__
                if expected[i] != got:
                    s.violation(f"reused_buffer:exception:{label}:{name}:" + exc_sig(e), case, repr(e))
                    s.case(nontrivial=True, calls=1, outcome="raises")
                    continue
            if got != expected[i]:
                s.violation(f"reused_buffer:answer_for_an_earlier_content_of_the_callers_buffer:{label}:{name}", case,
                            "the caller overwrote its buffer in place and called again: the result is not the one for the buffer's present content")
            try:
                same = _canon.digest(buf) == _canon.digest(x)
            except Exception:  # noqa: BLE001
                same = True
            if not same and name not in may_write:
                s.violation(f"reused_buffer:callers_buffer_modified:{label}:{name}", case, "the call changed the caller's buffer")
            s.case(nontrivial=i > 0, calls=1, outcome="reused", sample=case if len(s.samples) < 1 else None)
        s.extra.setdefault("reused_buffer", {})[f"{label}:{name}"] = len(inputs)


def storage_twins(bits01, with_bytes=False):
    """containers a careless cache key (tobytes(), bytes(x), id-free `==`) confuses with each other; yields (kind, object, its bit string):
    the plain big-endian bitarray; a little-endian bitarray over the SAME storage octets (= another bit string: every octet read backwards);
    a little-endian bitarray with the SAME bit string (= other storage octets); and, for entry points that take octets, the bytes"""
    be = bitarray(bits01)
    yield "big_endian", be, bits01
    t = bitarray(endian="little")
    t.frombytes(be.tobytes())
    del t[len(be):]
    yield "little_endian_same_octets", t, t.to01()
    yield "little_endian_same_bits", bitarray(bits01, endian="little"), bits01
    if with_bytes and len(bits01) % 8 == 0:
        yield "bytes", be.tobytes(), bits01


def storage_twin_histories(s, label, entries):
    """entries: (name, call(container) -> result, [bit strings], ok(result, bits01) -> bool, with_bytes).  For every entry point all ordered
    pairs of (bit string, container kind) items are called back to back in one process; every single result must satisfy the check's own
    oracle `ok` for the bit string its container holds.  A memo keyed by storage octets answers the second call of a pair for the first."""
    from .report import exc_sig

    for name, call, strings, ok, with_bytes in entries:
        items = []
        for b in strings:
            for kind, obj, bits in storage_twins(b, with_bytes):
                items.append((kind, obj, bits))
        n = 0
        for ka, oa, ba_ in items:
            for kb, ob, bb in items:
                case = {"entry_point": name, "first": [ka, hex(int(ba_, 2))], "second": [kb, hex(int(bb, 2))]}
                for which, (k_, o_, b_) in (("first", (ka, oa, ba_)), ("second", (kb, ob, bb))):
                    try:
                        arg = o_ if isinstance(o_, bytes) else o_.copy()
                        good = ok(call(arg), b_)
                    except Exception as e:  # noqa: BLE001
                        s.violation(f"storage_twins:exception:{label}:{name}:" + exc_sig(e), {**case, "call": which}, repr(e))
                        continue
                    if not good:
                        s.violation(f"storage_twins:wrong_result_in_a_history_of_storage_twins:{label}:{name}", {**case, "call": which},
                                    "two calls back to back on containers that share storage octets or a bit string: a call does not give the result for the bits its own container holds")
                n += 1
                s.case(nontrivial=(ka, ba_) != (kb, bb), calls=2, outcome="twin_pair", sample=case if len(s.samples) < 1 else None)
        s.extra.setdefault("storage_twin_pairs", {})[f"{label}:{name}"] = n


# ----------------------------------------------------------------------------------------------
# objects built with default arguments
# ----------------------------------------------------------------------------------------------
def _guess_argument(ann, name, depth):
    import typing

    origin = typing.get_origin(ann)
    if origin is typing.Union:
        args = [a for a in typing.get_args(ann) if a is not type(None)]
        if not args:
            return None
        return _guess_argument(args[0], name, depth)
    if origin in (list, typing.List):
        return []
    if origin in (dict, typing.Dict):
        return {}
    if origin is typing.Literal:
        return typing.get_args(ann)[0]
    if isinstance(ann, type):
        if issubclass(ann, enum.Enum):
            return list(ann)[0]
        for t, v in ((bool, False), (int, 1), (float, 1.5), (bytes, b"\x00\x01"), (str, "a")):
            if ann is t:
                return v
        if ann is bitarray:
            return bitarray("0" * 8)
        if ann.__module__.startswith("okdmr.") and depth < 2:
            return build_with_defaults(ann, depth + 1)
    raise TypeError(f"no value for {name}: {ann!r}")


def build_with_defaults(cls, depth=0):
    """cls(...) with a small fixed value for every REQUIRED parameter (by annotation) and every optional parameter left at its
    default -- the defaults are the point"""
    import inspect
    import typing

    sig = inspect.signature(cls.__init__)
    try:
        hints = typing.get_type_hints(cls.__init__)
    except Exception:  # noqa: BLE001
        hints = {}
    kw = {}
    for n, p in list(sig.parameters.items())[1:]:
        if p.kind in (p.VAR_POSITIONAL, p.VAR_KEYWORD) or p.default is not p.empty:
            continue
        kw[n] = _guess_argument(hints.get(n, p.annotation), n, depth)
    return cls(**kw)


def default_constructible(mods, parts):
    """(qualified name, class) of every concrete class defined in the given modules (name contains one of `parts`) that can be built
    by build_with_defaults; the classes that cannot are returned as a second list of names (not explored, reported)"""
    import inspect

    ok, skipped = [], []
    for m in sorted(mods, key=lambda m: m.__name__):
        if not any(x in m.__name__ for x in parts):
            continue
        for n, cls in sorted(vars(m).items()):
            if not isinstance(cls, type) or cls.__module__ != m.__name__ or issubclass(cls, (enum.Enum, BaseException)):
                continue
            if inspect.isabstract(cls) or cls.__init__ is object.__init__:
                continue
            try:
                build_with_defaults(cls)
                ok.append((f"{m.__name__.replace('okdmr.dmrlib.', '')}.{n}", cls))
            except Exception:  # noqa: BLE001
                skipped.append(f"{m.__name__.replace('okdmr.dmrlib.', '')}.{n}")
    return ok, skipped

"""History helpers: the caller owns what a codec call returns.  After a result has been compared, the harness overwrites
it in place; a later call with the same input must be unaffected (cached / shared result objects show up as history
dependence)."""
import enum

from bitarray import bitarray


def scribble(res, depth=0):
    """overwrite every mutable *buffer* reachable from a result"""
    try:
        if isinstance(res, bitarray):
            res.invert()
            res.extend("1011")
        elif isinstance(res, bytearray):
            for i in range(len(res)):
                res[i] ^= 0xFF
            res.extend(b"\xa5")
        elif isinstance(res, list) and depth < 3:
            for x in res:
                scribble(x, depth + 1)
            res.append("scribble")
        elif isinstance(res, dict) and depth < 3:
            for x in list(res.values()):
                scribble(x, depth + 1)
            res["scribble"] = 1
        elif isinstance(res, tuple) and depth < 3:
            for x in res:
                scribble(x, depth + 1)
        elif type(res).__module__ == "numpy" and hasattr(res, "fill"):
            res.fill(1)
        elif type(res).__name__ == "array" and hasattr(res, "typecode"):
            for i in range(len(res)):
                res[i] = 1
    except Exception:  # noqa: BLE001  (read-only results are fine)
        pass


def scramble(o, depth=0, _seen=None):
    """rewrite the attributes of a parsed *object* in place (ints, bools, bytes, strings, buffers, containers, nested objects);
    enum members and classes are left alone (they are shared by design)"""
    if _seen is None:
        _seen = set()
    if id(o) in _seen or depth > 4:
        return
    _seen.add(id(o))
    if isinstance(o, (bitarray, bytearray, list, dict)) or type(o).__module__ == "numpy":
        if isinstance(o, list):
            for x in list(o):
                scramble(x, depth + 1, _seen)
        scribble(o)
        return
    if isinstance(o, (enum.Enum, type)) or o is None or isinstance(o, (int, float, str, bytes, tuple, frozenset)):
        return
    d = getattr(o, "__dict__", None)
    if not isinstance(d, dict):
        return
    for k, v in list(d.items()):
        try:
            if isinstance(v, bool):
                d[k] = not v
            elif isinstance(v, int):
                d[k] = v ^ 0x55 if v >= 0 else -v
            elif isinstance(v, float):
                d[k] = v + 1.25
            elif isinstance(v, bytes):
                d[k] = b"\x7e" + v[::-1]
            elif isinstance(v, str):
                d[k] = v[::-1] + "~"
            elif isinstance(v, tuple):
                for x in v:
                    scramble(x, depth + 1, _seen)
            else:
                scramble(v, depth + 1, _seen)
        except Exception:  # noqa: BLE001
            pass


def scramble_shallow(o, depth=0):
    """in-place writes into the buffers and lists a returned object owns (not into dicts / nested definition tables, which may
    be shared class-level data by design): bitarray / bytearray attributes, list attributes and the same one level down"""
    if depth > 2 or o is None or isinstance(o, (enum.Enum, type, int, float, str, bytes, frozenset)):
        return
    if isinstance(o, (bitarray, bytearray)) or type(o).__module__ == "numpy":
        scribble(o)
        return
    if isinstance(o, (list, tuple)):
        for x in list(o):
            scramble_shallow(x, depth + 1)
        if isinstance(o, list):
            o.append("scribble")
        return
    d = getattr(o, "__dict__", None)
    if not isinstance(d, dict):
        return
    for k, v in list(d.items()):
        if isinstance(v, (bitarray, bytearray, list, tuple)) or type(v).__module__ == "numpy":
            scramble_shallow(v, depth + 1)
        elif hasattr(v, "__dict__") and not isinstance(v, (enum.Enum, type)) and not callable(v):
            scramble_shallow(v, depth + 1)

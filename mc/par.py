"""Deterministic fork-based parallel map.

`pmap(func, tasks)` evaluates func on every task in forked children (the library is
imported once in the parent; closures are fine because nothing is pickled on the way
in) and returns the results in task order.  A child that dies or raises makes the whole
call raise `WorkerError` -- a run that did not cover its declared space is an internal
error of the checker, never a verdict.
"""
import os
import pickle
import sys
import traceback

from . import env


class WorkerError(RuntimeError):
    in_library = False  # True when a worker died of an exception raised inside the library under test
    sig = ""


def pmap(func, tasks, nworkers=None):
    tasks = list(tasks)
    n = nworkers or env.workers()
    n = min(n, len(tasks))
    if n <= 1:
        return [func(t) for t in tasks]
    sys.stdout.flush()
    sys.stderr.flush()
    children = []
    for w in range(n):
        r, wfd = os.pipe()
        pid = os.fork()
        if pid == 0:
            code = 0
            try:
                os.close(r)
                for _, rr in children:
                    try:
                        os.close(rr)
                    except OSError:
                        pass
                try:
                    out = []
                    for i in range(w, len(tasks), n):
                        out.append((i, func(tasks[i])))
                    data = pickle.dumps(("ok", out), protocol=pickle.HIGHEST_PROTOCOL)
                except BaseException as exc:
                    tb = traceback.extract_tb(exc.__traceback__)
                    inner = ""
                    for fr in reversed(tb):
                        if "/okdmr/" in fr.filename or "/verif/" in fr.filename:
                            inner = fr.filename
                            break
                    fn = ""
                    for fr in reversed(tb):
                        if "/okdmr/" in fr.filename:
                            fn = os.path.basename(fr.filename) + ":" + fr.name
                            break
                    data = pickle.dumps(("err", (traceback.format_exc(), "/okdmr/" in inner and "/verif/" not in inner,
                                                 f"{type(exc).__name__}@{fn}")))
                    code = 3
                with os.fdopen(wfd, "wb") as f:
                    f.write(data)
            finally:
                os._exit(code)
        os.close(wfd)
        children.append((pid, r))
    results = [None] * len(tasks)
    got = 0
    errors = []
    lib = []
    for pid, r in children:
        with os.fdopen(r, "rb") as f:
            data = f.read()
        _, status = os.waitpid(pid, 0)
        if not data:
            errors.append(f"worker {pid} died without result (status {status})")
            continue
        kind, payload = pickle.loads(data)
        if kind != "ok":
            if isinstance(payload, tuple):
                errors.append(payload[0])
                if payload[1]:
                    lib.append(payload[2])
            else:
                errors.append(payload)
            continue
        for i, res in payload:
            results[i] = res
            got += 1
    if errors:
        err = WorkerError("\n".join(errors))
        if lib and len(lib) == len(errors):
            err.in_library = True
            err.sig = lib[0]
        raise err
    if got != len(tasks):
        raise WorkerError(f"coverage hole: {got} of {len(tasks)} tasks returned")
    return results


def chunks(n_items, n_chunks):
    """split range(n_items) in <= n_chunks contiguous (lo, hi) ranges"""
    n_chunks = max(1, min(n_chunks, n_items))
    out = []
    base, rem = divmod(n_items, n_chunks)
    lo = 0
    for c in range(n_chunks):
        hi = lo + base + (1 if c < rem else 0)
        if hi > lo:
            out.append((lo, hi))
        lo = hi
    return out


def split_list(items, n_chunks):
    items = list(items)
    return [items[lo:hi] for lo, hi in chunks(len(items), n_chunks)]

"""Generic structural canonicaliser (for state de-duplication only, never an oracle).

Walks __dict__/sequences/mappings/enums/bitarray/bytes without knowing attribute names,
so a refactoring that renames internals changes hashes, not verdicts.
"""
import datetime as _dt
import enum
import hashlib
import logging as _logging
import uuid as _uuid

try:
    from bitarray import bitarray
except Exception:  # pragma: no cover
    bitarray = ()
try:
    import numpy
except Exception:  # pragma: no cover
    numpy = None

SKIP_ATTRS = frozenset({"_io", "_parent", "_root", "log_instance", "_log"})


def canon(o, skip=SKIP_ATTRS, rename=None, _memo=None, _depth=0):
    """rename: optional callable(value)->value applied to leaf ints/bytes/str (token renaming)"""
    if _memo is None:
        _memo = {}
    if o is None or isinstance(o, (bool, float)):
        return o
    if isinstance(o, int):
        return rename(o) if rename else o
    if isinstance(o, str):
        return rename(o) if rename else o
    if isinstance(o, (bytes, bytearray)):
        v = bytes(o)
        if rename:
            v = rename(v)
        return ("b", v.hex() if isinstance(v, bytes) else repr(v))
    if isinstance(o, enum.Enum):
        return ("E", type(o).__name__, o.name)
    if isinstance(o, _logging.Logger):
        return ("logger",)  # loggers hang on the global logging tree; never library state
    if isinstance(o, _uuid.UUID):
        v = o.int
        return ("uuid", rename(v) if rename else v)
    if isinstance(o, (_dt.datetime, _dt.date, _dt.time)):
        # by value, not by (possibly seam-substituted) class name
        kind = "datetime" if isinstance(o, _dt.datetime) else ("date" if isinstance(o, _dt.date) else "time")
        return ("dt", kind, o.isoformat())
    if bitarray and isinstance(o, bitarray):
        return ("ba", o.to01())
    if numpy is not None and isinstance(o, numpy.ndarray):
        return ("np", o.shape, o.tobytes().hex())
    if numpy is not None and isinstance(o, numpy.generic):
        return o.item()
    if _depth > 60:
        return ("deep", type(o).__name__)
    oid = id(o)
    if isinstance(o, (list, tuple)):
        return ("L", tuple(canon(x, skip, rename, _memo, _depth + 1) for x in o))
    if isinstance(o, dict):
        items = [
            (canon(k, skip, rename, _memo, _depth + 1), canon(v, skip, rename, _memo, _depth + 1))
            for k, v in o.items()
        ]
        return ("D", tuple(sorted(items, key=repr)))
    if isinstance(o, (set, frozenset)):
        return ("S", tuple(sorted((canon(x, skip, rename, _memo, _depth + 1) for x in o), key=repr)))
    if isinstance(o, type):
        return ("T", o.__name__)
    if callable(o) and not hasattr(o, "__dict__"):
        return ("F", getattr(o, "__qualname__", type(o).__name__))
    if oid in _memo:
        return ("ref", _memo[oid])
    _memo[oid] = len(_memo)
    d = getattr(o, "__dict__", None)
    if d is not None:
        items = []
        for k in sorted(d):
            if k in skip:
                continue
            items.append((k, canon(d[k], skip, rename, _memo, _depth + 1)))
        return ("O", type(o).__name__, tuple(items))
    slots = getattr(type(o), "__slots__", None)
    if slots:
        return (
            "O",
            type(o).__name__,
            tuple((k, canon(getattr(o, k, None), skip, rename, _memo, _depth + 1)) for k in slots),
        )
    return ("R", type(o).__name__, repr(o))


def digest(o, **kw) -> str:
    return hashlib.sha1(repr(canon(o, **kw)).encode()).hexdigest()


def h(x) -> str:
    return hashlib.sha1(repr(x).encode()).hexdigest()

"""Evidence writer + VIOLATION / KNOWN-FINDING protocol.

A check creates `Report(pid)`, opens sub-checks with `rep.sub(name, rule=...)`, feeds
them counters (directly or by merging worker-side `Acc` objects) and calls
`rep.finish()`, which
  * matches every recorded violation signature against /verif/KNOWN_FINDINGS.json
    (read-only at run time; entries with status "open" suppress exactly their own
    signature, entries with status "fixed" suppress nothing),
  * writes /verif/replays/<pid>-<n>.json per unlisted signature and prints
    `VIOLATION property=<pid> replay=<path>`,
  * prints `KNOWN-FINDING: property=<pid> <what>` per listed open signature seen,
  * writes /verif/evidence/<pid>.json (all key families of EVIDENCE.schema.json),
  * returns the process exit code (0 ok, 1 violation, 2 incomplete coverage).
"""
import collections
import json
import os
import subprocess
import sys
import time

from . import env

MAX_CASES_PER_SIG = 5
MAX_SAMPLES = 6


def jsonable(o):
    """anything -> something json.dump accepts (a verdict must never be lost because a counterexample holds an odd object)"""
    try:
        json.dumps(o)
        return o
    except (TypeError, ValueError, RecursionError):
        pass
    if isinstance(o, dict):
        return {str(k): jsonable(v) for k, v in o.items()}
    if isinstance(o, (list, tuple, set, frozenset)):
        return [jsonable(x) for x in o]
    if isinstance(o, (bytes, bytearray)):
        return "hex:" + bytes(o).hex()
    return repr(o)


class Acc:
    """picklable accumulator returned by workers"""

    def __init__(self):
        self.n = 0  # cases evaluated
        self.calls = 0  # real library calls made
        self.nontrivial = 0
        self.viol = {}  # sig -> [count, [cases], what]
        self.samples = []
        self.outcomes = collections.Counter()

    def case(self, nontrivial=True, calls=1, outcome=None, sample=None):
        self.n += 1
        self.calls += calls
        if nontrivial:
            self.nontrivial += 1
        if outcome is not None:
            self.outcomes[outcome] += 1
        if sample is not None and len(self.samples) < 2:
            self.samples.append(jsonable(sample))

    def violation(self, sig, case, what=""):
        e = self.viol.get(sig)
        if e is None:
            e = self.viol[sig] = [0, [], what]
        e[0] += 1
        if len(e[1]) < MAX_CASES_PER_SIG:
            e[1].append(jsonable(case))

    def merge(self, other):
        self.n += other.n
        self.calls += other.calls
        self.nontrivial += other.nontrivial
        for sig, (cnt, cases, what) in other.viol.items():
            e = self.viol.get(sig)
            if e is None:
                e = self.viol[sig] = [0, [], what]
            e[0] += cnt
            for c in cases:
                if len(e[1]) < MAX_CASES_PER_SIG:
                    e[1].append(c)
        for s in other.samples:
            if len(self.samples) < MAX_SAMPLES:
                self.samples.append(s)
        self.outcomes.update(other.outcomes)
        return self


class Sub(Acc):
    def __init__(self, name, rule=""):
        super().__init__()
        self.name = name
        self.rule = rule
        self.states = None
        self.transitions = None
        self.traces = None
        self.exhaustive = True
        self.declared = None  # declared space size, must equal n at finish
        self.extra = {}
        self.t0 = time.perf_counter()
        self.wall = None

    def done(self):
        self.wall = round(time.perf_counter() - self.t0, 3)
        return self


class Report:
    def __init__(self, pid, level="model_checking"):
        self.pid = pid
        self.level = level
        self.tier = env.tier()
        self.seed = env.seed()
        self.t0 = time.perf_counter()
        self.subs = collections.OrderedDict()
        self.assumptions = []
        self.explanation = ""
        self.bounds = {}
        self.internal_errors = []

    # -- building -----------------------------------------------------------
    def sub(self, name, rule=""):
        if name not in self.subs:
            self.subs[name] = Sub(name, rule)
        return self.subs[name]

    def thorough(self):
        return self.tier == "thorough"

    def log(self, *a):
        print(f"[{self.pid} {time.perf_counter()-self.t0:7.1f}s]", *a, flush=True)

    def internal_error(self, msg):
        self.internal_errors.append(msg)
        self.log("INTERNAL-ERROR:", msg)

    # -- known findings -----------------------------------------------------
    def _known(self):
        path = os.path.join(env.VERIF, "KNOWN_FINDINGS.json")
        out = {}
        try:
            with open(path) as f:
                doc = json.load(f)
        except FileNotFoundError:
            return out
        for e in doc.get("findings", []):
            if e.get("property") == self.pid and e.get("status") == "open":
                out[e["sig"]] = e
        return out

    # -- finishing ----------------------------------------------------------
    def finish(self):
        known = self._known()
        viol_new = []
        viol_known = []
        for sub in self.subs.values():
            if sub.wall is None:
                sub.done()
            if sub.declared is not None and sub.declared != sub.n:
                self.internal_error(
                    f"sub-check {sub.name}: evaluated {sub.n} of declared {sub.declared} cases"
                )
                sub.exhaustive = False
            for sig, (cnt, cases, what) in sub.viol.items():
                full = f"{sub.name}:{sig}"
                rec = {"check": sub.name, "sig": full, "count": cnt, "what": what, "cases": cases}
                if full in known:
                    viol_known.append((rec, known[full]))
                else:
                    viol_new.append(rec)
        rdir = os.environ.get("VERIF_REPLAY_DIR") or os.path.join(env.VERIF, "replays")
        os.makedirs(rdir, exist_ok=True)
        for rec, k in viol_known:
            print(
                f"KNOWN-FINDING: property={self.pid} {k.get('what', rec['what'])} "
                f"[sig={rec['sig']} count={rec['count']}]",
                flush=True,
            )
        for i, rec in enumerate(viol_new):
            path = os.path.join(rdir, f"{self.pid}-{os.environ.get('VERIF_REPLAY_TAG', '')}{i}.json")
            with open(path, "w") as f:
                json.dump(
                    jsonable({"property": self.pid, "tier": self.tier, "seed": self.seed, "python_optimize": bool(sys.flags.optimize), **rec}),
                    f,
                    indent=1,
                )
            print(f"  violation sig={rec['sig']} count={rec['count']} {rec['what']}", flush=True)
            if rec["cases"]:
                print(f"    first case: {json.dumps(jsonable(rec['cases'][0]))[:600]}", flush=True)
            print(f"VIOLATION property={self.pid} replay={path}", flush=True)
        self._write_evidence(viol_new, viol_known)
        if viol_new:
            return 1
        if self.internal_errors:
            return 2
        return 0

    def _write_evidence(self, viol_new, viol_known):
        subs = {}
        ev = nt = st = tr = tv = calls = 0
        samples = []
        exhaustive = True
        rules = []
        for s in self.subs.values():
            states = s.states if s.states is not None else s.n
            trans = s.transitions if s.transitions is not None else s.calls
            traces = s.traces if s.traces is not None else s.n
            subs[s.name] = {
                "rule": s.rule,
                "evaluations": s.n,
                "library_calls": s.calls,
                "distinct_nontrivial": s.nontrivial,
                "states": states,
                "transitions": trans,
                "traces_validated_against_impl": traces,
                "distinct_outcomes": len(s.outcomes),
                "outcomes_top": [[str(k), v] for k, v in s.outcomes.most_common(8)],
                "exhaustive": s.exhaustive,
                "violation_signatures": {k: v[0] for k, v in s.viol.items()},
                "wall_s": s.wall,
                **jsonable(s.extra),
            }
            ev += s.n
            nt += s.nontrivial
            st += states
            tr += trans
            tv += traces
            calls += s.calls
            exhaustive = exhaustive and s.exhaustive
            for x in s.samples[:2]:
                if len(samples) < 12:
                    samples.append({"check": s.name, "case": x})
            if s.rule:
                rules.append(f"{s.name}: {s.rule}")
        doc = {
            "property_id": self.pid,
            "tier": self.tier,
            "seed": self.seed,
            "level": self.level,
            "coverage": {
                "states": st,
                "transitions": tr,
                "traces_validated_against_impl": tv,
                "evaluations": ev,
                "distinct_nontrivial": nt,
                "rule": " || ".join(rules),
                "samples": samples,
                "exhaustive": exhaustive and not self.internal_errors,
                "explanation": self.explanation,
                "bounds": jsonable(self.bounds),
                "process_environment": {"python_optimize": bool(sys.flags.optimize), "debug_logging": bool(os.environ.get("VERIF_HOSTILE")), "TZ": os.environ.get("TZ"), "LC_ALL": os.environ.get("LC_ALL"), "PYTHONHASHSEED": os.environ.get("PYTHONHASHSEED")},
                "subchecks": subs,
                "known_findings_seen": [r["sig"] for r, _ in viol_known],
                "new_violation_signatures": [r["sig"] for r in viol_new],
                "internal_errors": self.internal_errors,
            },
            "assumptions": self.assumptions,
            "wall_s": round(time.perf_counter() - self.t0, 3),
            "violations": len(viol_new),
        }
        edir = os.environ.get("VERIF_EVIDENCE_DIR") or os.path.join(env.VERIF, "evidence")
        os.makedirs(edir, exist_ok=True)
        path = os.path.join(edir, f"{self.pid}.json")
        tmp = path + ".tmp"
        with open(tmp, "w") as f:
            json.dump(jsonable(doc), f, indent=1)
            f.write("\n")
        os.replace(tmp, path)
        self._validate(path, doc)
        self.log(
            f"evidence {path}: evaluations={ev} nontrivial={nt} states={st} transitions={tr} "
            f"new_violations={len(viol_new)} known={len(viol_known)} wall={doc['wall_s']}s"
        )

    def _validate(self, path, doc):
        # cheap structural self-check (jsonschema is not in /venv); full validation: tools/validate_evidence.py
        c = doc["coverage"]
        ok = (
            c["states"] >= 1
            and c["transitions"] >= 1
            and len(c["samples"]) >= 1
            and c["evaluations"] >= 1
            and c["distinct_nontrivial"] >= 2
        )
        if not ok:
            self.internal_error("evidence would not satisfy EVIDENCE.schema.json minimums")


def exc_sig(e) -> str:
    """stable signature of an exception: type + innermost function inside the library"""
    import traceback as _tb

    fn = "?"
    for fr in reversed(_tb.extract_tb(e.__traceback__)):
        if "/okdmr/" in fr.filename:
            fn = os.path.basename(fr.filename) + ":" + fr.name
            break
    return f"{type(e).__name__}@{fn}"

"""Explicit-state explorer over *real* library objects.

A `System` wraps the real implementation object(s), a boring reference model and a
property monitor.  A state is identified by the event path that reaches it from a
named initial state; the explorer

  * expands every frontier state with every enabled event (breadth first, events in
    declared order, so the first counterexample is the shortest and simplest),
  * de-duplicates by `System.key()` (canonical hash of impl + model + monitor state),
  * re-builds every newly discovered state from scratch on fresh objects by replaying
    its path and requires the identical key (replay-determinism gate; counted as
    traces_validated_against_impl),
  * records per-event hit counts, distinct observations and optionally the labelled
    state graph (for cycle / livelock analysis).

Expansion of a level is distributed over forked workers; results are merged in
deterministic (frontier order x event order) order.
"""
import collections
import copy
import time

from . import par
from .canon import h


class System:
    """Subclass contract.

    INITS:  list of initial-state labels (JSON-able)
    __init__(init_label)
    events() -> list of JSON-able event labels enabled in this state (stable order)
    step(ev) -> list of (sig, detail) violations; mutates self; must set self.obs
                (a hashable/JSON-able observation of this transition)
    key() -> hashable canonical state
    """

    INITS = [None]
    obs = None

    def events(self):
        raise NotImplementedError

    def step(self, ev):
        raise NotImplementedError

    def key(self):
        raise NotImplementedError

    def clone(self):
        return copy.deepcopy(self)


class Result:
    def __init__(self):
        self.states = 0
        self.transitions = 0
        self.depth_completed = 0
        self.exhausted = False  # frontier became empty (fix-point)
        self.event_hits = collections.Counter()
        self.obs = collections.Counter()
        self.violations = {}  # sig -> [count, [ {init,path,detail} ]]
        self.replayed = 0
        self.replay_mismatch = []
        self.sample_paths = []
        self.graph = None  # list of (src_id, ev_index, dst_id) if requested
        self.state_ids = None
        self.per_depth = []
        self.capped = None
        self.stopped_on_violation = False
        self.wall = 0.0

    def add_violation(self, sig, init, path, detail):
        e = self.violations.get(sig)
        if e is None:
            e = self.violations[sig] = [0, []]
        e[0] += 1
        if len(e[1]) < 5:
            e[1].append({"init": init, "path": list(path), "detail": detail})


def build(cls, init, path):
    s = cls(init)
    for ev in path:
        s.step(ev)
    return s


class _PrefixBuilder:
    """re-builds states from (init, path) sharing common prefixes with the previously built path:
    a stack of clones, one per prefix length; each event is executed on a clone of its predecessor"""

    def __init__(self, cls):
        self.cls = cls
        self.init = object()
        self.path = []
        self.stack = []

    def get(self, init, path):
        if init != self.init or not self.stack:
            self.init = init
            self.path = []
            self.stack = [self.cls(init)]
        lcp = 0
        while lcp < len(path) and lcp < len(self.path) and path[lcp] == self.path[lcp]:
            lcp += 1
        del self.stack[lcp + 1:]
        self.path = list(path[:lcp])
        for ev in path[lcp:]:
            s = self.stack[-1].clone()
            s.step(ev)
            self.stack.append(s)
            self.path.append(ev)
        return self.stack[-1]


def _expand_chunk(cls, chunk):
    out = []
    pb = _PrefixBuilder(cls)
    for sid, init, path in chunk:
        base = pb.get(init, path)
        evs = base.events()
        for ev in evs:
            s = base.clone()
            viol = s.step(ev)
            out.append((sid, init, path, ev, h(s.key()), h(s.obs), viol))
    return out


def _replay_chunk(cls, chunk):
    """every newly discovered state is re-built in another process from a fresh initial object (prefixes shared
    inside the chunk) and must reproduce the key found during expansion"""
    out = []
    pb = _PrefixBuilder(cls)
    for init, path, key in chunk:
        s = pb.get(init, path)
        out.append((h(s.key()) == key, init, path))
    return out


def bfs(
    cls,
    max_depth=None,
    max_states=None,
    want_graph=False,
    replay_new_states=True,
    nworkers=None,
    deadline=None,
    log=None,
    stop_on_violation=True,
):
    t0 = time.perf_counter()
    res = Result()
    seen = {}
    frontier = []
    for init in cls.INITS:
        s = cls(init)
        k = h(s.key())
        if k not in seen:
            seen[k] = len(seen)
            frontier.append((seen[k], init, []))
    res.states = len(seen)
    edges = [] if want_graph else None
    depth = 0
    while frontier:
        if max_depth is not None and depth >= max_depth:
            break
        if deadline is not None and time.perf_counter() > deadline:
            res.capped = f"deadline hit before expanding depth {depth + 1}"
            break
        if len(frontier) >= 8:
            chunks = par.split_list(frontier, (nworkers or par.env.workers()) * 4)
            parts = par.pmap(lambda c: _expand_chunk(cls, c), chunks, nworkers)
        else:
            parts = [_expand_chunk(cls, frontier)]
        new_frontier = []
        new_for_replay = []
        for part in parts:
            for sid, init, path, ev, key, obs, viol in part:
                res.transitions += 1
                res.event_hits[repr(ev)] += 1
                res.obs[obs] += 1
                for sig, detail in viol:
                    res.add_violation(sig, init, path + [ev], detail)
                dst = seen.get(key)
                if dst is None:
                    dst = seen[key] = len(seen)
                    np_ = path + [ev]
                    new_frontier.append((dst, init, np_))
                    new_for_replay.append((init, np_, key))
                    if len(res.sample_paths) < 6 and len(np_) >= 2:
                        res.sample_paths.append({"init": init, "path": np_})
                if edges is not None:
                    edges.append((sid, repr(ev), dst))
        if replay_new_states and new_for_replay:
            if len(new_for_replay) >= 8:
                chunks = par.split_list(new_for_replay, (nworkers or par.env.workers()) * 4)
                rparts = par.pmap(lambda c: _replay_chunk(cls, c), chunks, nworkers)
            else:
                rparts = [_replay_chunk(cls, new_for_replay)]
            for part in rparts:
                for ok, init, path in part:
                    res.replayed += 1
                    if not ok and len(res.replay_mismatch) < 5:
                        res.replay_mismatch.append({"init": init, "path": path})
        depth += 1
        res.depth_completed = depth
        res.states = len(seen)
        res.per_depth.append({"depth": depth, "new_states": len(new_frontier), "transitions": res.transitions})
        if log:
            log(f"  bfs depth {depth}: +{len(new_frontier)} states (total {len(seen)}), transitions {res.transitions}")
        frontier = new_frontier
        if stop_on_violation and res.violations:
            # the level is complete (shortest counterexamples first); exploring a broken system further only costs time
            # and may not terminate (a defect can make a finite state space infinite)
            res.stopped_on_violation = True
            break
        if max_states is not None and len(seen) >= max_states and frontier:
            res.capped = f"state cap {max_states} hit after depth {depth}"
            break
    res.exhausted = not frontier and not res.stopped_on_violation
    res.graph = edges
    res.state_ids = seen if want_graph else None
    res.wall = time.perf_counter() - t0
    return res


def feed(sub, res, what_by_sig=None, name="", rep=None):
    """copy a bfs Result into a report Sub"""
    sub.n += res.transitions
    sub.calls += res.transitions
    sub.nontrivial += len(res.obs)
    sub.states = (sub.states or 0) + res.states
    sub.transitions = (sub.transitions or 0) + res.transitions
    sub.traces = (sub.traces or 0) + res.replayed
    for sp in res.sample_paths[:2]:
        if len(sub.samples) < 4:
            sub.samples.append(sp)
    for sig, (cnt, cases) in res.violations.items():
        e = sub.viol.get(sig)
        what = (what_by_sig or {}).get(sig, "")
        if e is None:
            e = sub.viol[sig] = [0, [], what]
        e[0] += cnt
        for c in cases:
            if len(e[1]) < 5:
                e[1].append(c)
    if res.replay_mismatch:
        sub.extra.setdefault("replay_mismatch", []).extend(res.replay_mismatch)
        if rep is not None:
            rep.internal_error(
                f"{name}: replaying a path on fresh objects gave a different state key "
                f"(nondeterminism not owned by the harness): {res.replay_mismatch[0]}"
            )
    sub.extra.setdefault("bfs", []).append(
        {
            "name": name,
            "states": res.states,
            "transitions": res.transitions,
            "depth_completed": res.depth_completed,
            "fixpoint_reached": res.exhausted,
            "capped": res.capped,
            "stopped_on_violation": res.stopped_on_violation,
            "distinct_observations": len(res.obs),
            "event_hits": dict(res.event_hits),
            "paths_replayed_on_fresh_objects": res.replayed,
            "per_depth": res.per_depth,
            "wall_s": round(res.wall, 2),
        }
    )
    if res.capped or not res.exhausted:
        # depth-bounded: complete to depth_completed, not a fix-point
        pass
    for ev, cnt in res.event_hits.items():
        sub.outcomes["event:" + ev] += cnt

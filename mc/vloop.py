"""A virtual asyncio event loop whose scheduling decisions belong to the explorer.

`VLoop` is a stock `asyncio.BaseEventLoop` (so stock `Task`, `Future`, `asyncio.sleep`, `Queue`, `wait_for`
work unchanged) without a selector and without real time:

  * `time()` returns a virtual clock that only `advance()` moves,
  * nothing ever calls `run_forever` / `_run_once`: the explorer pops the ready queue and the timer heap by
    hand, one handle at a time (`step()`), so every point at which the real loop could have delivered an
    external event (a datagram, a connection_lost) between two callbacks is a choice point of the search,
  * exceptions that asyncio would only log ("Task exception was never retrieved", callback errors) are
    collected in `errors`.

The library code under a VLoop runs inside `running()` (sets the thread's running loop for the duration of one
step, so `asyncio.get_running_loop()`, `asyncio.sleep`, `create_task` resolve to this loop) - several VLoops
(clones of a state) can coexist in one process.
"""
import asyncio
import contextlib
import heapq
from asyncio import events


class VLoop(asyncio.BaseEventLoop):
    def __init__(self):
        super().__init__()
        self._vt = 0.0
        self.errors = []
        self.set_debug(False)  # debug mode measures real time per callback; scheduling is ours anyway
        self.set_exception_handler(self._on_error)

    # ---- the pieces BaseEventLoop leaves to the selector loop
    def time(self):
        return self._vt

    def _process_events(self, event_list):  # pragma: no cover - never runs
        pass

    def _write_to_self(self):
        pass

    def _on_error(self, loop, context):
        exc = context.get("exception")
        self.errors.append((context.get("message", ""), type(exc).__name__ if exc is not None else None, repr(exc) if exc is not None else None))

    # ---- explorer interface
    @contextlib.contextmanager
    def running(self):
        prev = events._get_running_loop()
        events._set_running_loop(self)
        try:
            yield self
        finally:
            events._set_running_loop(prev)

    def ready_count(self):
        return sum(1 for h in self._ready if not h._cancelled)

    def timer_count(self):
        return sum(1 for h in self._scheduled if not h._cancelled)

    def next_timer(self):
        live = [h._when for h in self._scheduled if not h._cancelled]
        return min(live) if live else None

    def describe(self, owners=None):
        """a canonical description of what the loop holds, for state keys: the ready queue in order and the live timers by remaining
        delay - each handle as (callback name, owner), the owner being the label (in `owners`: {task: label}) of the task the callback
        belongs to or will wake.  Two loop states with equal descriptions have the same futures."""
        owners = owners or {}

        def owner_of(obj, depth=0):
            if obj in owners:
                return owners[obj]
            if isinstance(obj, asyncio.Future) and depth < 3:
                for cb in (getattr(obj, "_callbacks", None) or ()):
                    fn = cb[0] if isinstance(cb, tuple) else cb
                    o = owner_of(getattr(fn, "__self__", None), depth + 1)
                    if o is not None:
                        return o
            return None

        def one(h):
            cb = h._callback
            name = getattr(cb, "__qualname__", None) or getattr(cb, "__name__", None) or type(cb).__name__
            own = None
            try:
                own = owner_of(getattr(cb, "__self__", None))
                if own is None:
                    for a in (h._args or ()):
                        own = owner_of(a)
                        if own is not None:
                            break
            except TypeError:  # unhashable callback owner
                own = None
            # plain data handed to the callback (a datagram to re-send, an address, a sequence number) tells two pending timers apart
            plain = tuple(repr(a)[:80] for a in (h._args or ()) if isinstance(a, (bytes, bytearray, int, str, tuple, float, bool, type(None))))
            return (name, own, plain) if plain else (name, own)

        ready = tuple(one(h) for h in self._ready if not h._cancelled)
        timers = tuple(sorted((round(h._when - self._vt, 6), one(h)) for h in self._scheduled if not h._cancelled))
        return ready, timers

    def step(self):
        """run exactly one ready callback (cancelled handles are skipped, as the real loop does); False if none"""
        while self._ready:
            h = self._ready.popleft()
            if h._cancelled:
                continue
            with self.running():
                h._run()
            return True
        return False

    def advance(self):
        """move the virtual clock to the earliest live timer and make every timer due by then ready (in heap
        order, as `_run_once` does); False if there is no timer"""
        while self._scheduled and self._scheduled[0]._cancelled:
            h = heapq.heappop(self._scheduled)
            h._scheduled = False
        if not self._scheduled:
            return False
        self._vt = max(self._vt, self._scheduled[0]._when)
        while self._scheduled and self._scheduled[0]._when <= self._vt:
            h = heapq.heappop(self._scheduled)
            h._scheduled = False
            if not h._cancelled:
                self._ready.append(h)
        return True

    def drain(self, limit=1000):
        """run ready callbacks until none is left (never advances the clock); returns how many ran"""
        n = 0
        while n < limit and self.step():
            n += 1
        return n

    def shutdown(self, tasks=()):
        """cancel the given tasks, let them unwind, close the loop (so nothing is reported at garbage collection)"""
        try:
            for t in tasks:
                if not t.done():
                    t.cancel()
            self.drain()
            for t in tasks:
                if t.done() and not t.cancelled():
                    t.exception()  # retrieved
            self._ready.clear()
            self._scheduled.clear()
            if not self.is_closed():
                self.close()
        except Exception:  # noqa: BLE001 - tearing down a broken system must not raise
            pass

"""Interpreter hygiene + deterministic seams for the ok-dmrlib harness.

Importing this module (before any okdmr import) makes the run reproducible:
 * /repo first on sys.path (checks always run against the working tree),
 * no .pyc written, logging silenced, warnings off,
 * seams (clock, secrets, uuid) are installed on demand by `install_seams()`
   by run-time monkeypatching from the harness -- no change to /repo.
"""
import os
import sys

REPO = os.environ.get("VERIF_REPO", "/repo")
VERIF = os.path.dirname(os.path.dirname(os.path.abspath(__file__)))

sys.dont_write_bytecode = True
os.environ.setdefault("PYTHONDONTWRITEBYTECODE", "1")
# guard variable for (currently non-existent) repo hooks; recorded in MANIFEST.hooks
os.environ.setdefault("OK_DMRLIB_VERIF", "1")
if REPO not in sys.path:
    sys.path.insert(0, REPO)
if VERIF not in sys.path:
    sys.path.insert(0, VERIF)

import logging
import warnings

HOSTILE = bool(os.environ.get("VERIF_HOSTILE"))
if HOSTILE:
    # a production install: the packages of the "test" / "pre-commit" extras of pyproject.toml are not importable
    for _opt in ("crc", "pytest", "pytest_cov", "pytest_asyncio", "coverage", "pre_commit", "_pytest"):
        sys.modules.setdefault(_opt, None)
if HOSTILE:
    # warnings are errors in this pass (the interpreter was also started with -W error)
    warnings.simplefilter("error")
else:
    warnings.simplefilter("ignore")
if HOSTILE:
    # second pass ("hostile environment", see run_check.hostile_pass): every logger enabled down to DEBUG with a handler that formats
    # each record (so that arguments of debug lines are evaluated) and throws the text away
    class _FormatAndDrop(logging.Handler):
        def emit(self, record):
            try:
                self.format(record)
            except Exception:  # noqa: BLE001  (logging never raises into the caller, as with stock handlers)
                pass

    logging.disable(logging.NOTSET)
    logging.root.handlers[:] = [_FormatAndDrop()]
    logging.root.setLevel(logging.DEBUG)
    # an embedding application that has lowered the decimal precision (the tutorial's getcontext().prec = 6); inherited by forked workers
    import decimal as _decimal

    _decimal.getcontext().prec = 6
    # ... and that prints numpy arrays its own way
    try:
        import numpy as _numpy

        _numpy.set_printoptions(formatter={"int": hex}, linewidth=20, sign="+", threshold=5)
    except Exception:  # noqa: BLE001
        pass
else:
    logging.disable(logging.CRITICAL)


def seed() -> int:
    try:
        return int(os.environ.get("VERIF_SEED", "0"))
    except ValueError:
        return 0


def tier(default="quick") -> str:
    t = os.environ.get("VERIF_TIER", default)
    return t if t in ("quick", "thorough") else default


def workers() -> int:
    try:
        n = int(os.environ.get("VERIF_WORKERS", "0"))
    except ValueError:
        n = 0
    if n <= 0:
        n = min(16, os.cpu_count() or 1)
    return n


def assert_repo_import():
    """the library under test must be the one in REPO (editable install or sys.path)"""
    import okdmr.dmrlib as lib

    p = os.path.realpath(os.path.dirname(lib.__file__))
    want = os.path.realpath(os.path.join(REPO, "okdmr", "dmrlib"))
    if p != want:
        raise RuntimeError(f"okdmr.dmrlib imported from {p}, expected {want}")


# ---------------------------------------------------------------------------
# counter-mode deterministic "background values" (no random module state)
# ---------------------------------------------------------------------------
import hashlib


def det_bytes(label: str, n: int, seed_: int = None) -> bytes:
    """n deterministic bytes for (seed, label): sha256 in counter mode."""
    s = seed() if seed_ is None else seed_
    out = b""
    ctr = 0
    while len(out) < n:
        out += hashlib.sha256(f"{s}|{label}|{ctr}".encode()).digest()
        ctr += 1
    return out[:n]


def det_int(label: str, bits: int, seed_: int = None) -> int:
    nbytes = (bits + 7) // 8
    v = int.from_bytes(det_bytes(label, nbytes, seed_), "big")
    return v & ((1 << bits) - 1)


def det_bits(label: str, n: int, seed_: int = None) -> str:
    """n-character '0'/'1' string"""
    if n == 0:
        return ""
    return format(det_int(label, n, seed_), f"0{n}b")


# ---------------------------------------------------------------------------
# seams
# ---------------------------------------------------------------------------
class Seams:
    """Deterministic replacements for the library's nondeterminism sources.

    secrets.token_bytes(n) -> big-endian counter (so stream ids are 0,1,2,...)
    uuid.uuid4()           -> UUID(int=counter)
    time.time()            -> constant
    datetime.now()         -> constant (module-level `datetime` names patched)
    """

    def __init__(self, clock=1_700_000_000.0, tick=0.0):
        self.clock = clock
        self.tick = tick  # every reading of the clock advances it by this many seconds (0: the clock stands still)
        self.tok = 0
        self.uid = 0
        self._undo = []

    def token_bytes(self, n=32):
        self.tok += 1
        return (self.tok % (1 << (8 * n))).to_bytes(n, "big")

    def uuid4(self):
        import uuid

        self.uid += 1
        return uuid.UUID(int=self.uid)

    def time(self):
        return self._read()

    def _read(self):
        t = self.clock
        self.clock += self.tick
        return t

    def reset(self):
        self.tok = 0
        self.uid = 0

    def _patch(self, obj, name, val):
        if hasattr(obj, name):
            self._undo.append((obj, name, getattr(obj, name)))
            setattr(obj, name, val)

    def install(self):
        import secrets
        import time
        import uuid
        import datetime as _dt

        self._patch(secrets, "token_bytes", self.token_bytes)
        self._patch(uuid, "uuid4", self.uuid4)
        self._patch(time, "time", self.time)
        seams = self

        class _AnyDateTime(type):
            def __instancecheck__(cls, inst):  # values derived from a substituted instance (.date(), arithmetic) are of the real type
                return isinstance(inst, _dt.datetime)

        class _AnyDate(type):
            def __instancecheck__(cls, inst):
                return isinstance(inst, _dt.date)

        class FakeDateTime(_dt.datetime, metaclass=_AnyDateTime):
            @classmethod
            def now(cls, tz=None):
                return cls.fromtimestamp(seams._read(), tz)  # an instance of the substituted class: isinstance(x, datetime) holds inside the library

            @classmethod
            def utcnow(cls):
                return cls.utcfromtimestamp(seams._read())

        class FakeDate(_dt.date, metaclass=_AnyDate):
            @classmethod
            def today(cls):
                return cls.fromtimestamp(seams._read())

        # patch names already imported into okdmr modules
        for modname, mod in list(sys.modules.items()):
            if not modname.startswith("okdmr"):
                continue
            d = getattr(mod, "__dict__", {})
            if d.get("token_bytes") is not None and getattr(
                d.get("token_bytes"), "__module__", ""
            ) in ("secrets", "random"):
                self._patch(mod, "token_bytes", self.token_bytes)
            if d.get("uuid4") is not None and getattr(d["uuid4"], "__module__", "") == "uuid":
                self._patch(mod, "uuid4", self.uuid4)
            if d.get("time") is time.time or (
                callable(d.get("time")) and getattr(d.get("time"), "__name__", "") == "time"
                and getattr(d.get("time"), "__module__", "") == "time"
            ):
                self._patch(mod, "time", self.time)
            if d.get("datetime") is _dt.datetime:
                self._patch(mod, "datetime", FakeDateTime)
            if d.get("date") is _dt.date:
                self._patch(mod, "date", FakeDate)
        return self

    def uninstall(self):
        for obj, name, val in reversed(self._undo):
            setattr(obj, name, val)
        self._undo = []


def import_all_okdmr():
    """import every non-test, non-tool module of the library (so seams can find names)"""
    import importlib
    import pkgutil
    import okdmr.dmrlib as lib

    mods = []
    for m in pkgutil.walk_packages(lib.__path__, "okdmr.dmrlib."):
        n = m.name
        if ".tests" in n or ".tools" in n or n.endswith("__main__"):
            continue
        try:
            mods.append(importlib.import_module(n))
        except Exception:  # optional deps (snmp...) must not break the harness
            pass
    return mods

"""Independent MBXML reference (harness side): variable-length numbers, LRRP token tables
as *data*, canonical document writer.

Nothing here imports okdmr.  Sources of the transcription:
  * varints: the docstrings of okdmr/dmrlib/motorola/mbxml.py (read/write_uintvar: 7 payload
    bits per octet, most significant septet first, bit 7 = "another octet follows";
    read/write_sintvar: the same with bit 6 of the *first* septet as the sign) and the
    vectors of the MBXML examples quoted in test_mbxml.py (25 -> 0x25, 8120 -> 0xA0,
    828F25 -> 0x87A5, 65 -> -0x25, C120 -> -0xA0, 400A -> -10/128, 1F4DBC7780 -> 2003-06-30 07:30:00);
  * token tables: the LRRP element / attribute token tables (lrrp.py at the pinned commit),
    copied by hand into tuples below (id, kind, fixed length, attribute ids) -- the check
    cross-checks them against the library once per run (see c15_mbxml.crosscheck_tables).
"""

UINTVAR_MAX = (1 << 32) - 1
SINTVAR_MAX = (1 << 31) - 1


# ---------------------------------------------------------------------------
# integers
# ---------------------------------------------------------------------------
def septets(v: int):
    """most significant septet first, shortest form (at least one septet)"""
    assert v >= 0
    out = [v & 0x7F]
    v >>= 7
    while v:
        out.append(v & 0x7F)
        v >>= 7
    return out[::-1]


def pack(sep) -> bytes:
    """continuation bit on all but the last octet"""
    return bytes([s | 0x80 for s in sep[:-1]] + [sep[-1]])


def enc_uintvar(v: int) -> bytes:
    assert 0 <= v <= UINTVAR_MAX
    return pack(septets(v))


def dec_uintvar(data: bytes, idx: int):
    v = 0
    while True:
        b = data[idx]
        idx += 1
        v = (v << 7) | (b & 0x7F)
        if not b & 0x80:
            return v, idx


def enc_sintvar(v: int, negative_zero: bool = False) -> bytes:
    """sign lives in bit 6 of the first septet, so the first septet carries only 6
    magnitude bits; canonical = the shortest sequence that leaves bit 6 free"""
    assert abs(v) <= SINTVAR_MAX
    sep = septets(abs(v))
    if sep[0] & 0x40:
        sep = [0] + sep
    if v < 0 or negative_zero:
        sep[0] |= 0x40
    return pack(sep)


def dec_sintvar(data: bytes, idx: int):
    """-> (value, idx, sign)"""
    b = data[idx]
    idx += 1
    sign = -1 if b & 0x40 else 1
    v = b & 0x3F
    while b & 0x80:
        b = data[idx]
        idx += 1
        v = (v << 7) | (b & 0x7F)
    return sign * v, idx, sign


def is_canonical_uintvar(b: bytes, v: int) -> bool:
    """length == max(1, ceil(bitlen/7)), no leading 0x80, continuation bits exactly on all but the last"""
    n = max(1, -(-v.bit_length() // 7))
    if len(b) != n:
        return False
    if len(b) > 1 and b[0] == 0x80:
        return False
    return all(x & 0x80 for x in b[:-1]) and not b[-1] & 0x80


# ---------------------------------------------------------------------------
# floats: integer varint followed by the fraction D / 128^k written as k septets
# ---------------------------------------------------------------------------
def enc_fraction(d: int, p: int) -> bytes:
    """fraction d/128^p, 0 <= d < 128^p: exactly p septets, then trailing zero septets
    dropped (they do not change the value), at least one septet"""
    assert 0 <= d < 128 ** p
    sep = [(d >> (7 * i)) & 0x7F for i in range(p - 1, -1, -1)]
    while len(sep) > 1 and sep[-1] == 0:
        sep.pop()
    return pack(sep)


def enc_ufloat(i: int, d: int, p: int = 1) -> bytes:
    return enc_uintvar(i) + enc_fraction(d, p)


def enc_sfloat(i: int, d: int, negative: bool, p: int = 1) -> bytes:
    """i = magnitude of the integer part, d = magnitude of the fraction numerator"""
    return enc_sintvar(-i if negative else i, negative_zero=negative) + enc_fraction(d, p)


def fval(i: int, d: int, p: int = 1, negative: bool = False) -> float:
    """the exact double i + d/128^p (exact for i < 2^32, p <= 3)"""
    v = i + d / (128 ** p)
    return -v if negative else v


# ---------------------------------------------------------------------------
# coordinates and info-time (layout per the as_xml decoding formulas / the 2003 example)
# ---------------------------------------------------------------------------
def dec_latitude(b: bytes) -> float:
    return round(int.from_bytes(b, "big") * 90 / 2 ** 31, 6)


def dec_longitude(b: bytes) -> float:
    return round(int.from_bytes(b, "big") * 360 / 2 ** 32, 6)


def enc_infotime(y, mo, d, h, mi, s) -> bytes:
    return ((y << 26) | (mo << 22) | (d << 17) | (h << 12) | (mi << 6) | s).to_bytes(5, "big")


def dec_infotime(b: bytes):
    v = int.from_bytes(b, "big")
    return (v >> 26, (v >> 22) & 0xF, (v >> 17) & 0x1F, (v >> 12) & 0x1F, (v >> 6) & 0x3F, v & 0x3F)


# ---------------------------------------------------------------------------
# LRRP tables (data).  kind: how the value is laid out after the token octet.
# ---------------------------------------------------------------------------
OPAQUE, UINTVAR, UFLOAT, SFLOAT, UINT8, NONE, INFOTIME, CIRCLE2D, POINT2D, POINT3D = (
    "OPAQUE_I", "UINTVAR", "UFLOATVAR", "SFLOATVAR", "UINT8", "NO_VALUE", "INFO_TIME", "CIRCLE_2D", "POINT_2D", "POINT_3D",
)
# kinds present in the tables but with no reader/writer in the library ("not implemented")
OPAQUE_T, CIRCLE3D, POINT3D_ACC = "OPAQUE_T", "CIRCLE_3D", "POINT_3D_WITH_ACC"
IMPLEMENTED_KINDS = (OPAQUE, UINTVAR, UFLOAT, SFLOAT, UINT8, NONE, INFOTIME, CIRCLE2D, POINT2D, POINT3D)

# id: (name, kind, fixed_length or None, [attribute ids])
COMMON = {
    0x22: ("request-id", OPAQUE, None, []),
    0x23: ("request-id", OPAQUE, 1, []),
    0x24: ("request-id", OPAQUE_T, None, []),
}
REQUEST = {
    0x31: ("interval", UINTVAR, None, []),
    0x33: ("oneshot-trigger", NONE, None, []),
    0x34: ("periodic-trigger", NONE, None, []),
    0x54: ("request-altitude", NONE, None, []),
    0x55: ("request-altitude-acc", UINTVAR, None, []),
    0x56: ("request-altitude-acc", UFLOAT, None, []),
    0x57: ("request-direction-hor", NONE, None, []),
    0x5F: ("request-hor-acc", UINTVAR, None, []),
    0x60: ("request-hor-acc", UFLOAT, None, []),
    0x61: ("request-lev-conf", UINT8, None, []),
    0x3F: ("request-protocol-version", UINTVAR, None, []),
    0x62: ("request-speed-hor", NONE, None, []),
    0x64: ("request-speed-vrt", NONE, None, []),
    0x42: ("require-max-info-age", UINTVAR, None, []),
    0x66: ("require-altitude", NONE, None, []),
    0x67: ("require-altitude-acc", UINTVAR, None, []),
    0x68: ("require-altitude-acc", UFLOAT, None, []),
    0x69: ("require-direction-hor", NONE, None, []),
    0x71: ("require-hor-acc", UINTVAR, None, []),
    0x72: ("require-hor-acc", UFLOAT, None, []),
    0x73: ("require-lev-conf", UINT8, None, []),
    0x74: ("require-speed-hor", NONE, None, []),
    0x76: ("require-speed-vrt", NONE, None, []),
    0x50: ("ret-info", NONE, None, [0x50]),
    0x51: ("ret-info", NONE, None, [0x51, 0x54]),
    0x52: ("ret-info", NONE, None, [0x54]),
    0x53: ("ret-info", NONE, None, []),
    0x4A: ("trg-condition", UINTVAR, None, []),
}
ANSWER = {
    0x51: ("circle-2d", CIRCLE2D, None, []),
    0x54: ("circle-3d", CIRCLE3D, None, []),
    0x55: ("circle-3d", CIRCLE3D, None, []),
    0x56: ("direction-hor", UINT8, None, []),
    0x34: ("info-time", INFOTIME, 5, []),
    0x35: ("info-time", INFOTIME, None, []),
    0x65: ("lev-conf", UINT8, None, []),
    0x66: ("point-2d", POINT2D, None, []),
    0x69: ("point-3d", POINT3D, None, []),
    0x6A: ("point-3d", POINT3D_ACC, None, []),
    0x36: ("protocol-version", UINTVAR, None, []),
    0x37: ("result", OPAQUE, 0, [0x22]),
    0x38: ("result", OPAQUE, 0, [0x23]),
    0x39: ("result", OPAQUE, None, [0x22]),
    0x6C: ("speed-hor", UFLOAT, None, []),
    0x70: ("speed-vrt", SFLOAT, None, []),
    0x6B: ("unknown-uint8", UINT8, None, []),
}
# attribute id: (name, carries_value, implied value): carries_value False = the value is implied by the
# attribute token itself (no octets follow the element token for it)
ATTRIBUTES = {
    0x22: ("result-code", True, None),
    0x23: ("result-code", False, 0),
    0x50: ("ret-info-accuracy", False, 0x49),
    0x51: ("ret-info-accuracy", False, 0x49),
    0x52: ("ret-info-no-req-id", False, 0x49),
    0x53: ("ret-info-no-req-id", False, 0x49),
    0x54: ("ret-info-time", False, 0x49),
    0x55: ("ret-info-time", False, 0x49),
}
FAMILIES = {"request": REQUEST, "answer": ANSWER, "common": {}}

# document id: (member name in the library enum, has no constant table (NCDT), family)
DOC_IDS = {
    0x04: ("LRRP_ImmediateLocationRequest", False, "request"),
    0x05: ("LRRP_ImmediateLocationRequest_NCDT", True, "request"),
    0x06: ("LRRP_ImmediateLocationReport", False, "answer"),
    0x07: ("LRRP_ImmediateLocationReport_NCDT", True, "answer"),
    0x08: ("LRRP_TriggeredLocationRequest", False, "request"),
    0x09: ("LRRP_TriggeredLocationRequest_NCDT", True, "request"),
    0x0A: ("LRRP_TriggeredLocationAnswer", False, "common"),
    0x0B: ("LRRP_TriggeredLocationAnswer_NCDT", True, "common"),
    0x0C: ("LRRP_TriggeredLocationReport", False, "answer"),
    0x0D: ("LRRP_TriggeredLocationReport_NCDT", True, "answer"),
    0x0E: ("LRRP_TriggeredLocationStopRequest", False, "request"),
    0x0F: ("LRRP_TriggeredLocationStopRequest_NCDT", True, "request"),
    0x10: ("LRRP_TriggeredLocationStopAnswer", False, "answer"),
    0x11: ("LRRP_TriggeredLocationStopAnswer_NCDT", True, "answer"),
    0x12: ("LRRP_UnsolicitedLocationReport", False, "answer"),
    0x13: ("LRRP_UnsolicitedLocationReport_NCDT", True, "answer"),
    0x14: ("LRRP_LocationProtocolRequest_NCDT", True, "request"),
    0x15: ("LRRP_LocationProtocolReport_NCDT", True, "answer"),
}


def table_for(doc_id: int):
    """all element tokens of a document id (common + family), implemented or not"""
    t = dict(COMMON)
    t.update(FAMILIES[DOC_IDS[doc_id][2]])
    return t


def implemented_tokens(doc_id: int):
    return {k: v for k, v in table_for(doc_id).items() if v[1] in IMPLEMENTED_KINDS}


# ---------------------------------------------------------------------------
# canonical writer.  A token is (token_id, value, [values of the value-carrying attributes]).
# value by kind: OPAQUE bytes | UINTVAR int | UFLOAT (i, d) | SFLOAT (i, d, negative) | UINT8 int |
#   NONE None | INFOTIME 5 bytes | CIRCLE2D (lat4, lon4, (i, d)) | POINT2D (lat4, lon4) |
#   POINT3D (lat4, lon4, (i, d, negative));  fractions are single septets (d < 128).
# ---------------------------------------------------------------------------
def enc_token(table, tok) -> bytes:
    tid, value, attrs = tok
    name, kind, flen, attr_ids = table[tid]
    out = enc_uintvar(tid)
    carried = [a for a in attr_ids if ATTRIBUTES[a][1]]
    assert len(carried) == len(attrs), (hex(tid), attrs)
    for a in attrs:
        out += enc_uintvar(a)
    if kind == OPAQUE:
        if flen is None:
            out += enc_uintvar(len(value)) + value
        else:
            assert len(value) == flen
            out += value
    elif kind == UINTVAR:
        out += enc_uintvar(value)
    elif kind == UFLOAT:
        out += enc_ufloat(value[0], value[1], 1)
    elif kind == SFLOAT:
        out += enc_sfloat(value[0], value[1], value[2], 1)
    elif kind == UINT8:
        out += bytes([value])
    elif kind == NONE:
        pass
    elif kind == INFOTIME:
        assert len(value) == 5
        out += value
    elif kind == CIRCLE2D:
        out += value[0] + value[1] + enc_ufloat(value[2][0], value[2][1], 1)
    elif kind == POINT2D:
        out += value[0] + value[1]
    elif kind == POINT3D:
        out += value[0] + value[1] + enc_sfloat(value[2][0], value[2][1], value[2][2], 1)
    else:
        raise AssertionError(f"kind {kind} is not implemented")
    return out


INHERIT = "inherit"


def enc_document(doc_id: int, tokens, cdt=None) -> bytes:
    """cdt: None for NCDT ids; bytes = inline constant table (cdt_len = len, table follows);
    INHERIT = cdt_len 1, the table of the previous document in the buffer is re-used"""
    name, ncdt, family = DOC_IDS[doc_id]
    table = table_for(doc_id)
    body = b""
    if ncdt:
        assert cdt is None
    else:
        assert cdt is not None
        if cdt == INHERIT:
            body += enc_uintvar(1)
        else:
            assert len(cdt) != 1, "a one-octet table cannot be told from the inherit marker"
            body += enc_uintvar(len(cdt)) + cdt
    for t in tokens:
        body += enc_token(table, t)
    return enc_uintvar(doc_id) + enc_uintvar(len(body)) + body


def expected_value(kind, value):
    """what the parsed token's .value has to be (python value) for a harness value"""
    if kind == UFLOAT:
        return fval(value[0], value[1], 1)
    if kind == SFLOAT:
        return fval(value[0], value[1], 1, value[2])
    if kind == CIRCLE2D:
        return (value[0], value[1], fval(value[2][0], value[2][1], 1))
    if kind == POINT3D:
        return (value[0], value[1], fval(value[2][0], value[2][1], 1, value[2][2]))
    if kind == POINT2D:
        return (value[0], value[1])
    return value

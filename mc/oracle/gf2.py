"""GF(2) polynomial arithmetic on Python ints (bit i = coefficient of x^i).
Shares no code with the library under test."""


def deg(a):
    return a.bit_length() - 1


def pmod(a, g):
    dg = deg(g)
    while a and deg(a) >= dg:
        a ^= g << (deg(a) - dg)
    return a


def crc_remainder(msg_bits: str, g: int) -> int:
    """remainder of msg(x) * x^w mod g(x), w = deg g; msg_bits[0] is the highest-order coefficient"""
    w = deg(g)
    m = int(msg_bits, 2) if msg_bits else 0
    return pmod(m << w, g)


def weight(v):
    return bin(v).count("1")


# --- block codes of ETSI TS 102 361-1 annex B.3 as (shortened / extended) cyclic codes ---------
# name: (n, k, d, g(x), extended_by_overall_parity)
# Found by exhaustive search over all polynomials of degree n-k (resp. n-k-1): exactly one
# polynomial reproduces each ETSI matrix (see DESIGN.md C06); they are the textbook ones:
#   Hamming x^3+x+1, x^4+x+1, x^5+x^2+1; Golay x^11+x^10+x^6+x^5+x^4+x^2+1; QR(17) x^8+x^5+x^4+x^3+1
CODES = {
    "hamming_7_4_3": (7, 4, 3, 0b1011, False),
    "hamming_13_9_3": (13, 9, 3, 0b10011, False),
    "hamming_15_11_3": (15, 11, 3, 0b10011, False),
    "hamming_16_11_4": (16, 11, 4, 0b10011, True),
    "hamming_17_12_3": (17, 12, 3, 0b100101, False),
    "golay_20_8_7": (20, 8, 7, 0b110001110101, True),
    "qr_16_7_6": (16, 7, 6, 0b100111001, True),
}


def encode_systematic(m: int, n: int, k: int, g: int, extended: bool) -> int:
    """codeword as n-bit int, message in the k high bits"""
    if extended:
        r = n - k - 1
        c = (m << r) | pmod(m << r, g)
        return (c << 1) | (weight(c) & 1)
    r = n - k
    return (m << r) | pmod(m << r, g)


def codeword_set(name):
    n, k, d, g, ext = CODES[name]
    return {encode_systematic(m, n, k, g, ext) for m in range(1 << k)}

"""GF(2^8) arithmetic for the Reed-Solomon (12,9,4) oracle of C11.

Field: GF(2)[x] / (x^8 + x^4 + x^3 + x^2 + 1)  (0x11D), primitive element alpha = x = 2
(ETSI TS 102 361-1 B.3.6).  Everything is computed: carry-less shift-and-add multiply
with reduction, powers by repeated multiplication, syndromes by Horner's rule.  No
log/antilog table, nothing shared with the library under test.

A word c = (c_0 .. c_11) (c_0 first transmitted, c_9..c_11 parity) is the polynomial
c(x) = sum c_i x^(11-i); it is a codeword iff c(alpha^j) = 0 for j = 1, 2, 3, i.e. iff
g(x) = (x-alpha)(x-alpha^2)(x-alpha^3) divides c(x).
"""

MODULUS = 0x11D
ALPHA = 2
N = 12
K = 9
ROOTS = (1, 2, 3)  # exponents j of the roots alpha^j


def mul(a: int, b: int) -> int:
    """product in GF(2^8): carry-less multiply, reduced modulo 0x11D"""
    if not (0 <= a < 256 and 0 <= b < 256):
        raise ValueError("operands must be octets")
    r = 0
    while b:
        if b & 1:
            r ^= a
        b >>= 1
        a <<= 1
        if a & 0x100:
            a ^= MODULUS
    return r


def power(a: int, e: int) -> int:
    r = 1
    for _ in range(e):
        r = mul(r, a)
    return r


def poly_eval(word, x: int) -> int:
    """Horner: word[0] is the highest-order coefficient"""
    acc = 0
    for c in word:
        acc = mul(acc, x) ^ c
    return acc


def syndromes(word) -> tuple:
    """(c(alpha^1), c(alpha^2), c(alpha^3)) by Horner, no tables"""
    return tuple(poly_eval(word, power(ALPHA, j)) for j in ROOTS)


def is_codeword(word) -> bool:
    return len(word) == N and syndromes(word) == (0, 0, 0)


def generator_polynomial() -> tuple:
    """coefficients of prod (x + alpha^j), highest order first (monic)"""
    g = [1]
    for j in ROOTS:
        r = power(ALPHA, j)
        nxt = g + [0]
        for i, c in enumerate(g):
            nxt[i + 1] ^= mul(c, r)
        g = nxt
    return tuple(g)


def parity(message) -> tuple:
    """remainder of message(x) * x^3 modulo g(x) by schoolbook long division (3 octets, high order first)"""
    g = generator_polynomial()
    rem = list(message) + [0] * (len(g) - 1)
    for i in range(len(message)):
        f = rem[i]
        if f:
            for k, gc in enumerate(g):
                rem[i + k] ^= mul(f, gc)
    return tuple(rem[len(message):])


class SyndromeTable:
    """Derived data (not an independent definition): contribution of symbol value v at position i to the
    three syndromes, packed as one 24-bit int, computed with mul()/power() above.  syndrome_packed(word)
    is the xor of 12 look-ups; cross-validated against the Horner evaluation by self_test()."""

    def __init__(self):
        self.t = []
        for i in range(N):
            row = []
            w = [power(power(ALPHA, j), N - 1 - i) for j in ROOTS]
            for v in range(256):
                row.append((mul(v, w[0]) << 16) | (mul(v, w[1]) << 8) | mul(v, w[2]))
            self.t.append(row)

    def packed(self, word) -> int:
        t = self.t
        s = 0
        for i in range(N):
            s ^= t[i][word[i]]
        return s

    def self_test(self):
        for i in range(N):
            for v in (0, 1, 2, 0x1D, 0x80, 0xFF, 0xA5):
                w = [0] * N
                w[i] = v
                s = syndromes(w)
                assert self.packed(w) == (s[0] << 16) | (s[1] << 8) | s[2], (i, v)
        w = [(37 * i + 11) & 0xFF for i in range(N)]
        s = syndromes(w)
        assert self.packed(w) == (s[0] << 16) | (s[1] << 8) | s[2]


def self_test():
    # field axioms on a spot set + order of alpha (255) -> 0x11D is primitive with alpha = 2
    seen = set()
    a = 1
    for _ in range(255):
        seen.add(a)
        a = mul(a, ALPHA)
    assert a == 1 and len(seen) == 255 and 0 not in seen
    assert generator_polynomial() == (1, 14, 56, 64)  # ETSI B.3.6: g(x) = x^3 + 14 x^2 + 56 x + 64
    m = (1, 2, 3, 4, 5, 6, 7, 8, 9)
    assert is_codeword(m + parity(m))

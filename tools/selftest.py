"""setup_cmd: nothing to build (pure Python harness); verify the toolchain the checks need is present."""
import os, sys
sys.path.insert(0, os.path.dirname(os.path.dirname(os.path.abspath(__file__))))
from mc import env, par
env.assert_repo_import()
import bitarray, numpy  # noqa
assert par.pmap(lambda x: x * x, range(40)) == [x * x for x in range(40)]
for d in ("evidence", "replays"):
    os.makedirs(os.path.join(env.VERIF, d), exist_ok=True)
print("verif selftest ok: python", sys.version.split()[0], "workers", env.workers())

#!/usr/bin/env python3
"""fill 'what' and 'needs_to_manifest' of seeded/*/meta.json from the seeding author's notes.md (kept next to it)"""
import glob, json, os, re
HERE = os.path.dirname(os.path.dirname(os.path.abspath(__file__)))
for f in sorted(glob.glob(os.path.join(HERE, "seeded", "*", "meta.json"))):
    d = os.path.dirname(f)
    m = json.load(open(f))
    notes = os.path.join(d, "notes.md")
    if not os.path.exists(notes):
        continue
    txt = open(notes).read()
    paras = [p.strip() for p in re.split(r"\n\s*\n|\n(?=[*#-] )", txt) if p.strip()]
    clean = lambda p: re.sub(r"\s+", " ", p.strip("#*- ").replace("**", "")).strip()
    what = ""
    needs = ""
    for p in paras:
        c = clean(p)
        low = c.lower()
        if not what and (low.startswith(("change", "what the change", "the change")) or "change:" in low[:40]):
            what = c
        if not needs and ("needs to manifest" in low or "what it needs" in low or low.startswith(("needs", "manifest", "trigger")) or "needed to manifest" in low or "to manifest" in low[:60]):
            needs = c
    if not what:
        what = clean(paras[0]) + (" " + clean(paras[1]) if len(paras) > 1 and len(paras[0]) < 120 else "")
    if not needs:
        cand = [clean(p) for p in paras if re.search(r"\bneed|\bonly (when|if|for)|\brequires?\b|\btrigger", p, re.I)]
        needs = cand[0] if cand else ""
    m["what"] = what[:700]
    m["needs_to_manifest"] = needs[:900]
    json.dump(m, open(f, "w"), indent=1)
print("filled")

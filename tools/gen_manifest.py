#!/usr/bin/env python3
"""Generate /verif/MANIFEST.json from the table below (single source of truth)."""
import json
import os

HERE = os.path.dirname(os.path.dirname(os.path.abspath(__file__)))

BASELINE = "cd /repo && /venv/bin/python -m pytest -ra -q -p no:cacheprovider --timeout=900 --continue-on-collection-errors"

# pid -> (category, technique, text, level_note, design_ref)
P = {
    "C01": (
        "model_checking",
        "complete enumeration of stated finite spaces through the real assemble -> as_bytes -> from_bytes -> as_bytes path; slot-type / sync placement re-derived independently",
        "16 colour codes x 4 data syncs x every supported payload kind (48 kind/data-type combinations) x base payloads as a full product; every kind x every field x the field's whole alphabet; all info vectors of weight <= 1 (2) and complements through BPTC / trellis / rate-1 inside a burst; voice bursts: 4 voice syncs x all vocoder vectors of weight <= 1 (2) + complements, and all 128 (cc, PI, LCSS) x 68 embedded-32 vectors x vocoder fills. Parsed data type, colour code, class, payload bits and every field must equal what was assembled; the second as_bytes must give the same 33 bytes; voice bursts must survive bit for bit.",
        "Bound: payload values per field alphabet (all values for <= 8-bit fields), not all 2^216 vocoder payloads (weight <= 2 + complements; the splice is position-local). Trusted: C03's ETSI layouts, polynomial Golay / QR references, sync table 9.2 transcribed in the harness.",
        "DESIGN.md §3 C01, §9.2",
    ),
    "C02": (
        "model_checking",
        "complete fault enumeration: every error pattern of weight <= 2 (all 19,307) over the 196 transmitted bits x base codewords, plus all messages of weight <= 2 (3) and complements error-free, on the real encoder/decoder vs. a re-derived 13x15 product-code layout",
        "Error-free: all messages of weight <= 2 (thorough 3) + complements decode with and without repair and are not altered by repair; rows / columns are multiples of x^4+x+1 in the harness's own layout (index*181 mod 196); encoder linearity on all basis pairs. Faults: all C(196,<=2) patterns on 3 (thorough 102: zero, ones, all 96 unit messages, seed words) base codewords must decode to the original, with a translation-invariance gate across base words.",
        "Bound: 2^96 messages reduced by linearity (checked to order 2) and decoder translation invariance (checked on every base); error weight <= 2 as the statement says. Trusted: harness layout + polynomial Hamming codes.",
        "DESIGN.md §3 C02",
    ),
    "C09": (
        "model_checking",
        "complete enumeration (all 2^11 single-burst messages x both parities; weight <= 2-5 messages + complements; every octet position x all 256 values and octet pairs for the non-linear 5-bit checksum) on the real VBPTC encoders/extractors vs. re-derived column-major layouts",
        "extract(encode(m)) == m; every data row a word of the polynomial Hamming(16,11,4)/(17,12,3) reference, every column with the required parity; CS5 / CRC-8 read back by the library's own extractor equal the library's and the harness's computation over the message; encode(m) == encode(m||checksum) == encode(deinterleave_all(encode(m))).",
        "Bound: not all 2^72 / 2^28 messages (CS5 covered per octet and per octet pair, thorough all 256^2 values per pair). Trusted: harness layouts (asserted against the on-air vectors of the repository tests), CS5 and CRC-8 references.",
        "DESIGN.md §3 C09",
    ),
    "C03": (
        "model_checking",
        "complete enumeration: all 2^w values of 30 element enumerations, bounded-exhaustive field products of every PDU kind against bit-level ETSI layouts, all 2^25 + 2^24 GPS codes (thorough), arbitrary bit strings of weight <= 1 (2) from every opcode prefix",
        "Elements are total over their width; every PDU kind (9 CSBK opcodes, 5 data-header formats, 7 full-LC opcodes in 96- and 77-bit form, 2 short LCs, PI header, 12 rate-data variants, 8 UDP/IPv4 header variants) is built from fields, compared bit by bit with the harness's own layout tables (CRC positions masked), decoded, read back field by field, re-encoded, and round-tripped through the bytes interface; arbitrary right-length strings must raise a documented error or be a fixed point of decode-encode.",
        "Bound: fields wider than 8 bits at boundary + walking values; all one- and two-field variations of 2-4 bases, full product where <= 6,000 (60,000) cases. Trusted: the harness's transcription of the ETSI PDU layouts.",
        "DESIGN.md §3 C03",
    ),
    "C04": (
        "model_checking",
        "exhaustive enumeration of all 2^20 slot-type and all 2^16 EMB words vs. polynomial reference codes + complete fault enumeration (all error patterns of weight <= 2 (3) and all bursts up to the check width over every bit) on CRC-protected PDUs",
        "Indicator == codeword membership for every received slot-type / EMB word; every library-encoded PDU with a check field parses with indicator true (also recomputed with the harness's GF(2) division); for base PDUs of every CRC-protected kind every low-weight / burst corruption that is not a multiple of the generator must be rejected or leave all fields unchanged; all 512 CRC-9 residues x CRC-32 single-bit cases for last blocks; HRNP single-word errors.",
        "Bound: error weight <= 2 quick / 3 thorough, bursts <= 9-10 quick / 16 thorough, fixed base PDUs. Trusted: harness GF(2) long division, ETSI polynomials and masks.",
        "DESIGN.md §3 C04",
    ),
    "C07": (
        "model_checking",
        "complete enumeration of a bounded configuration space through the real generator -> bytes -> parser -> tracker pipeline with the fragmentation arithmetic, CRC-32 and count-down recomputed in the harness",
        "Every payload length 0..100 (thorough 0..1500) x 3 rates x confirmed/unconfirmed, plus block-boundary lengths x preamble counts {0,2,3,16} (0..16) x colour codes x fills: exactly one started + one data-ended, handed-over blocks = preambles + header + N data blocks, data == payload + announced pad, CRC-32 of the last block recomputed by polynomial division, every confirmed block crc9_ok, preamble blocks-to-follow counting down to header + blocks, tracker idle afterwards.",
        "Bound: payload contents from 4 fills; configurations needing > 127 blocks are not representable. Trusted: table 8.1 transcription, GF(2) CRC-32 reference.",
        "DESIGN.md §3 C07",
    ),
    "C05": (
        "model_checking",
        "complete enumeration of bounded bit-string / octet-string / error-pattern spaces on the real CRC engines and front ends vs. integer polynomial long division",
        "Every length 0..128 (thorough 0..400) x {zero, ones, every unit vector, fills} x 5 widths x bitwise/table, all strings up to 12 (16) bits, all weight-2 strings, the same as little-endian bitarrays, all 2^w check values, all 5^3 call sequences on the shared calculator singletons, front ends over all masks / serial numbers, all 147,536 1-3 bit error patterns on 96-bit CCITT PDUs and all bursts <= CRC width at every position.",
        "Bound: message contents are structured (basis + fills), front-end octet strings structured per length. Trusted: harness GF(2) long division and the transcription of ETSI B.3.7-B.3.12 (anchored on 10 captured on-air vectors).",
        "DESIGN.md §3 C05",
    ),
    "C10": (
        "model_checking",
        "explicit exploration of the encoder's complete 8-state transition relation through the real functions + complete enumeration of the small maps + structured end-to-end blocks",
        "All 64 (state, tribit) transitions, all (state, point) pairs at all 49 stream positions incl. every un-emittable point (must be refused), dibit/point bijections, the 98-position interleaver in both directions, point locality, then end-to-end blocks (every position x every tribit pair, weight <= 1 / 2 and complements, bits and bytes, big- and little-endian bitarrays).",
        "Bound: not all 2^144 blocks; the step to 'all' rests on the complete state machine + bijections + locality, each enumerated completely. Rejection is an assert (python -O removes it).",
        "DESIGN.md §3 C10",
    ),
    "C11": (
        "model_checking",
        "complete enumeration (all 65,536 multiplier pairs, single-symbol basis x 28 masks, all 1-symbol / bounded 2-3-symbol corruptions) on the real RS functions vs. a table-free GF(2^8) reference",
        "Field multiply exhaustively; generate() on zero + all 9x255 single-symbol messages + pairs (additivity) under 28 masks: every word must have zero syndromes at alpha^1..3 in the harness's own GF(256) arithmetic, be accepted under its mask and rejected under all others; check() accepts exactly one parity triple (thorough: all 2^24); all 1-symbol, bounded-alphabet (thorough: all values) 2-symbol and 3-symbol corruptions are rejected.",
        "Bound: messages via basis + additivity, not all 2^72; 3-symbol errors over a 12-value alphabet. Trusted: harness carry-less multiply mod 0x11D, generator roots alpha^1..alpha^3.",
        "DESIGN.md §3 C11",
    ),
    "C19": (
        "model_checking",
        "explicit-state exploration of the interpreter-global library state: every ordered pair (and shared-state triple) of a catalogue of about 280 closed calls (every public codec family; explicit, default-argument and default-built-object variants; lookup APIs; failing calls) executed in its own forked child of a pristine parent and compared with the fresh result",
        "All ordered pairs (i,j) of the catalogue (every public codec family; explicit / default-argument / default-constructed-object variants) and all ordered triples over the ops touching shared state; the last call must return the digest it returns in a fresh interpreter state and every call's argument buffers are hashed before/after. Fresh digests are cross-checked against a brand-new interpreter, two interpreters with different fake dates, and two clock/randomness seam settings.",
        "Bound: sequence length 3, the catalogue as alphabet. Trusted: fork of a pristine parent == fresh state (cross-checked), generic structural digest of results.",
        "DESIGN.md §3 C19",
    ),
    "C06": (
        "model_checking",
        "complete enumeration of all 2^k messages, all 2^n words, all single (16,11,4: double) errors on the real functions vs. polynomial-arithmetic reference codes",
        "Fully exhaustive bounded exploration: every message, every received word and every single-bit error of all seven codes is executed on the real encoder/checker/corrector and compared with an independent cyclic-code reference. Nothing is sampled; the bound is the whole domain of the property.",
        "Trusted: harness GF(2) polynomial arithmetic and the generator polynomials (textbook Hamming/Golay/QR), CPython, bitarray, numpy.",
        "DESIGN.md §3 C06",
    ),
    "C08": (
        "model_checking",
        "explicit-state BFS over the real Terminal/Timeslot/Transmission objects (all burst sequences to a depth bound) with a property monitor",
        "Bounded exhaustive exploration of the real tracker: every sequence over a 21-burst alphabet up to depth 3 (quick) / 4 (thorough), a 13-burst core to depth 4 / 6, voice super-frame sequences to depth 8 / 10 and two-timeslot interleavings to depth 3 with a shadow single-slot run per slot; a monitor checks start/end well-formedness, handed-over header and blocks, idle + fresh stream id, A-F labels, sequence numbers and observer isolation on every transition.",
        "Bound: depth and the burst alphabet (one member per dispatch branch plus blocks-to-follow / confirmed / SAP variants). Trusted: harness monitor, counter seam for secrets.token_bytes, constant clock.",
        "DESIGN.md §3 C08",
    ),
    "C12": (
        "model_checking",
        "bounded-exhaustive enumeration (all one-field and two-field variations of two bases + full products where small, x bare / HRNP / HSTRP nesting) on the real Hytera codecs vs. an independent frame walker",
        "Every implemented opcode of RRS (5), LP (2), TMP (8), RCP (17 + unknown service) x reliable flag x per-field alphabets, bare and nested in HRNP and HSTRP; the full product of HRNP header alphabets over all opcodes; 170 (more in thorough) HSTRP option lists of 0-3 options with data lengths 0-255. The harness's own frame walker recomputes service byte, opcode, length (per-service endianness), checksum, terminator, HRNP length/ones-complement checksum and the option TLV chain; parse -> serialise must give the same bytes and fields.",
        "Bound: field alphabets (boundary + walking values for wide fields), interactions of >= 3 non-base fields only in the small full products. Trusted: harness frame walker and opcode tables transcribed from the kaitai specs, validated on 44 captured packets.",
        "DESIGN.md §3 C12",
    ),
    "C13": (
        "model_checking",
        "bounded-exhaustive enumeration of 72-byte frames built by the harness from a field vector (full product kind x colour code x timeslot; all field pairs over two bases) through both real decoders and the serialiser",
        "Frames are built from the byte layout of the kaitai spec with payloads of all 15 slot kinds; Burst.from_hytera_ipsc(bytes) and Burst.from_hytera_ipsc(IpSiteConnectProtocol) must agree on class, bits, timeslot, sequence, colour and ids, equal the field vector, and as_ipsc_bytes() must reproduce the frame on both paths; the 46 captured frames of the test-suite are run through the same oracle.",
        "Bound: payload info bits come from captures / seeded voice payloads; ill-formed frames (undefined type values, non-zero id low byte) excluded as the statement does. Trusted: harness frame builder (reproduces the 46 captures).",
        "DESIGN.md §3 C13",
    ),
    "C14": (
        "model_checking",
        "complete enumeration of dense ranges and structured septet families on the real MBXML writers/readers vs. a harness varint reference",
        "uintvar 0..2^16 (thorough 0..2^21) + every value with two free septets (all 128^2 values, all 10 position pairs) + all septet boundaries; the same mirrored for sintvar (incl. negative zero); floats: all 128 / 16,384 fractions for precision 1 / 2 x integer alphabet, boundary (thorough: all 128^3 for 3 integers) fractions for precision 3; latitude/longitude on a 10^-3 grid plus 10^-6 windows read back through the XML view; all dates 2000-2099 x 3 times and all 86,400 times x dates.",
        "Bound: 32-bit values above 2^21 only in the structured families; float integer parts from a 45-value alphabet. Trusted: harness varint reference (self-tested on the repository's example vectors).",
        "DESIGN.md §3 C14",
    ),
    "C15": (
        "model_checking",
        "bounded-exhaustive enumeration of token sequences, token x value alphabets, multi-document tuples and constant-table variants, written by the harness's own MBXML writer and re-serialised by the library",
        "18 LRRP document ids x all token sequences of length 0..2 (thorough 0..3), every token x its complete value alphabet inside a 10-token background, all ordered 1..3 (4) document tuples over 8 representative documents, inline / inherited / default constant tables, and the token lookup API (get_token -> as_bytes in one forked child, from_bytes in another). Bytes in == bytes out, parts equal the harness's token list, parsing terminates.",
        "Bound: sequences of arbitrary tokens only to length 2 (3), longer documents through the fixed background; ARRP ids and unimplemented kinds excluded. Trusted: harness MBXML writer and transcribed token tables (cross-checked against the library tables at start-up).",
        "DESIGN.md §3 C15",
    ),
    "C16": (
        "model_checking",
        "full product of small per-field alphabets (all sequence numbers 0..127, all refresh times 1..127, all failure reasons, flag combinations, address / text / identifier lengths) on the real TMS / ARS codecs with an independent wire-layout decoder",
        "TMS service availability, acknowledgement (sequence number absent + all 0..127) and text messages (all sequence numbers x encodings x texts x addresses); ARS registration cube, responses (every failure reason, all refresh times), query / de-registration, with and without CSBK trailer and for both header forms. Length prefix == bytes that follow, fields equal after from_bytes, identical re-serialisation, and an independent harness decode of the optional-header octets.",
        "Bound: one content per address/text/identifier length; big-endian only. Trusted: harness wire-layout decoder.",
        "DESIGN.md §3 C16",
    ),
    "C17": (
        "model_checking",
        "explicit-state BFS over the real RRSDatagramProtocol (single handler, two handlers wired back to back with all delivery orders, and the handler with its periodic_maintenance() coroutine as a stock asyncio.Task on a virtual event loop whose ready queue, timer heap and clock the explorer owns: all schedules of datagrams, loop callbacks and timer expiries to a depth; the same for two handlers with both maintenance tasks on one loop) + a TLA+ model of the acknowledgement discipline enumerated by TLC with every model transition replayed against two real handlers + complete enumeration of all truncations / single-bit corruptions at depth 1",
        "All datagram sequences over a 22-class alphabet to depth 5 (quick) / 8 (thorough) from 6 initial states (sequence counter near wrap-around, connected or not) against a reference model; closed two-handler system with <= 2 / 3 injected datagrams and every delivery order, which must always go quiet; all orders of 14 datagram / endpoint events, single loop callbacks, timer expiries and two long silences (70 s / 400 s of virtual time) to depth 5 (7) with the maintenance task running, and to depth 10 (14) for the closed two-handler system with both tasks; models/Hstrp.tla: 630 (4 791) model states, each of the 1 221 (14 136) transitions replayed on fresh handlers; every prefix truncation and single-bit flip of every alphabet datagram in 4 reachable states.",
        "Bound: depth, alphabet, injection budget. Trusted: harness HSTRP/HDAP writer+parser, reference model of the statement, constant clock.",
        "DESIGN.md §3 C17",
    ),
    "C18": (
        "model_checking",
        "explicit-state BFS to fix-point over the real P2PDatagramProtocol / RDACDatagramProtocol + RepeaterStorage with a recording transport, reference models in lock-step",
        "The reachable state space over the datagram alphabet is finite and explored completely (fix-point): every history of any length over 10 P2P datagram classes x 3 (4) sources and 12 RDAC datagram classes x 2 (3) peers. Outputs are classified by the harness and compared with the registered-source model / the 14-step table on every transition.",
        "Bound: the datagram alphabet (one member per dispatch branch + malformed members). Trusted: transcribed handshake constants, SNMP stub (prescribed by the property), uuid counter seam.",
        "DESIGN.md §3 C18",
    ),
    "C20": (
        "model_checking",
        "explicit-state BFS to fix-point over the real RepeaterStorage in lock-step with a list-of-dicts reference model (full public-state diff after every call)",
        "Every history of any length over ~60 API calls on 2 colliding addresses (fix-point), all sequences to depth 3 / 4 over 3 addresses with the full patch pool, and depth-bounded runs that move address_in; identity, growth, id uniqueness and locality of patches are checked as a whole-storage diff against the model after every transition.",
        "Bound: address / key / value pools; patching id, method names or None values is outside the statement. Trusted: reference model, uuid counter seam.",
        "DESIGN.md §3 C20",
    ),
}

NOT_YET = {}


def main():
    checks = []
    for pid in sorted(P):
        cat, tech, text, note, ref = P[pid]
        checks.append(
            {
                "property_id": pid,
                "quick_cmd": f"./check {pid} --tier quick",
                "thorough_cmd": f"./check {pid} --tier thorough",
                "evidence_file": f"/verif/evidence/{pid}.json",
                "replay_cmd_template": f"./check {pid} --replay {{path}}",
                "engine": "E2-explicit-state" if pid in ("C08", "C17", "C18", "C19", "C20") else "E1-finite-space",
                "level_claimed": {"category": cat, "text": text, "design_ref": ref},
                "level_note": note,
                "technique": tech,
            }
        )
    props = [json.loads(l)["id"] for l in open(os.path.join(HERE, "properties.jsonl")) if l.strip()]
    na = [
        {"property_id": pid, "reason": NOT_YET.get(pid, "check not built yet at this commit (work in progress; see DESIGN.md §3 for the planned model-checking design)")}
        for pid in props
        if pid not in P
    ]
    doc = {
        "version": 1,
        "setup_cmd": "cd /verif && /venv/bin/python -B tools/selftest.py",
        "hooks": {
            "guard": "OK_DMRLIB_VERIF",
            "enable": "no source hooks exist: every seam (secrets.token_bytes, uuid4, time, datetime, Repeater.read_snmp_values) is monkeypatched at run time by /verif/mc/env.py; checks import /repo's working tree directly (editable install), so there is nothing to build",
            "baseline_off_cmd": BASELINE,
            "source_commits": [],
            "add_only": True,
        },
        "engines": [
            {
                "name": "E1-finite-space",
                "path": "/verif/mc/par.py, /verif/mc/spaces.py",
                "serves_properties": [p for p in sorted(P) if p not in ("C08", "C17", "C18", "C19", "C20")],
                "kind_free_text": "complete enumeration of an explicitly bounded input / fault space on the real functions, distributed over forked workers, with a declared-size == evaluated-size assertion; independent reference oracles in /verif/mc/oracle",
            },
            {
                "name": "E2-explicit-state",
                "path": "/verif/mc/explore.py, /verif/mc/canon.py, /verif/mc/vloop.py",
                "serves_properties": [p for p in sorted(P) if p in ("C08", "C17", "C18", "C19", "C20")],
                "kind_free_text": "breadth-first explicit-state search over the real library objects (one real call per transition), canonical-hash de-duplication, reference model + monitor in lock-step, every discovered state re-built from its event path on fresh objects",
            },
        ],
        "checks": checks,
        "not_applicable": na,
        "notes": "All checks: ./check <id> --tier quick|thorough; VERIF_SEED rotates additional background values (and the non-UTC process time zone of the main pass) only. Every command runs two passes: the main pass and, if that held, a second pass of the same check (quick-tier bounds) in a deliberately different process environment (python -O -X dev -W error, time zone on the other side of UTC, DEBUG logging, decimal precision 6, other hash seed, test-extra packages not importable; DESIGN.md 9.5); its coverage is merged into the same evidence file (coverage.hostile_environment_pass), a violation found there prints the usual VIOLATION line and its replay file is replayed in that environment by ./check <id> --replay. VERIF_SKIP_OPT_PASS=1 skips the second pass (debugging only). KNOWN_FINDINGS.json is read-only at run time. Besides the spaces named per check, every codec check explores call histories with the real objects (results kept / overwritten by the caller, one argument buffer overwritten in place between calls, failing calls first, 2^16 repetitions and 70 000 distinct inputs where a call leaves a trace in class/module data; mc/hist.py, DESIGN.md 9.4). /verif/seeded holds the confirmed property-breaking changes the checks were tried against, /verif/preserving 48 behaviour-preserving changes on which every check stays silent (tools/eval_preserving.sh), /verif/mutants the records of a syntactic mutant sweep over all anchor files (tools/mutant_sweep.py; survivors read and classified). C17 additionally explores asyncio schedules on a virtual event loop (mc/vloop.py, DESIGN.md 9.6) and replays every transition of a TLC-checked TLA+ model against the real handlers (models/Hstrp.tla, checks/c17_tla.py, DESIGN.md 9.7; needs tlc on PATH, skipped with a note otherwise).",
    }
    with open(os.path.join(HERE, "MANIFEST.json"), "w") as f:
        json.dump(doc, f, indent=1)
        f.write("\n")
    print("wrote MANIFEST.json with", len(checks), "checks,", len(na), "not_applicable")


if __name__ == "__main__":
    main()

#!/bin/bash
# Silence probe: apply each behaviour-preserving patch of /verif/preserving (written by fresh sub-agents who saw nothing of /verif)
# in a scratch worktree of /repo, run the repository's test-suite and the checks of the touched area (+ C19), expect exit 0 everywhere.
# batches 1-6: first sample (round 6), 7-12: second sample (round 8), same six areas
# usage: tools/eval_preserving.sh <scratch-worktree> [batch ...]      (the worktree is created if missing and left clean)
set -u
HERE=$(cd "$(dirname "$0")/.." && pwd)
wt=$1; shift
batches=${*:-1 2 3 4 5 6 7 8 9 10 11 12}
declare -A CHECKS=( [1]="C02 C06 C09 C10 C11 C01 C04 C19" [2]="C05 C03 C01 C04 C07 C19" [3]="C01 C07 C08 C13 C19" [4]="C12 C04 C17 C19" [5]="C14 C15 C16 C19" [6]="C17 C18 C20 C08" [7]="C02 C06 C09 C10 C11 C01 C04 C19" [8]="C05 C03 C01 C04 C07 C19" [9]="C01 C07 C08 C13 C19" [10]="C12 C04 C17 C19" [11]="C14 C15 C16 C19" [12]="C17 C18 C20 C08" )
[ -d "$wt" ] || git -C /repo worktree add -q --detach "$wt" HEAD
ev=$(mktemp -d)
bad=0
for b in $batches; do
  for p in "$HERE"/preserving/b${b}_*.diff; do
    k=$(basename "$p" .diff)
    git -C "$wt" checkout -q --detach "$(git -C /repo rev-parse HEAD)"; git -C "$wt" checkout -q -- .
    if ! git -C "$wt" apply "$p" 2>/dev/null; then echo "preserving $k: PATCH DOES NOT APPLY"; continue; fi
    suite=$(cd "$wt" && PYTHONPATH=$wt /venv/bin/python -m pytest -q -p no:cacheprovider --timeout=900 2>&1 | tail -1)
    for c in ${CHECKS[$b]}; do
      out=$(VERIF_REPO=$wt VERIF_EVIDENCE_DIR=$ev VERIF_REPLAY_DIR=$ev "$HERE"/check "$c" --tier quick 2>&1); rc=$?
      echo "preserving $k $c exit=$rc viol=$(echo "$out" | grep -c '^VIOLATION') suite=[$suite]"
      if [ $rc -ne 0 ]; then bad=1; echo "$out" | grep -E "violation sig=|first case|INTERNAL" | cut -c1-400 | head -6; fi
    done
    git -C "$wt" checkout -q -- .
  done
done
rm -rf "$ev"
exit $bad

#!/usr/bin/env python3
"""validate MANIFEST.json and evidence/*.json against the schemas (run with python3-vt)"""
import json, sys, glob, os
import jsonschema
here = os.path.dirname(os.path.dirname(os.path.abspath(__file__)))
ms = json.load(open("/root/.vp/MANIFEST.schema.json"))
es = json.load(open("/root/.vp/EVIDENCE.schema.json"))
bad = 0
m = json.load(open(os.path.join(here, "MANIFEST.json")))
try:
    jsonschema.validate(m, ms); print("MANIFEST ok,", len(m["checks"]), "checks")
except jsonschema.ValidationError as e:
    print("MANIFEST INVALID:", e.message); bad += 1
for f in sorted(glob.glob(os.path.join(here, "evidence", "*.json"))):
    try:
        d = json.load(open(f)); jsonschema.validate(d, es)
        c = d["coverage"]
        print(os.path.basename(f), "ok", d["tier"], "ev=%d nt=%d st=%d tr=%d viol=%s wall=%.1f" % (c.get("evaluations",0), c.get("distinct_nontrivial",0), c.get("states",0), c.get("transitions",0), d.get("violations"), d["wall_s"]))
    except Exception as e:
        print(os.path.basename(f), "INVALID:", str(e)[:300]); bad += 1
sys.exit(1 if bad else 0)

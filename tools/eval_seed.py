#!/usr/bin/env python3
"""Confirm a seeded change and run checks against it.

usage: eval_seed.py --id C08 --patch P.diff --demo demo.py [--check C08 --check C01] [--wt /tmp/wt_main] [--tier quick] [--save NAME]

Steps (all in a scratch worktree kept at /repo's HEAD):
  1. demo on the clean tree            -> must exit 0
  2. apply patch; repo suite           -> must pass (204)
  3. demo with the patch               -> must exit != 0
  4. each check (VERIF_REPO=worktree, evidence redirected) -> records exit code + violation signatures
  5. revert
With --save NAME the seed is stored as /verif/seeded/NAME/{patch.diff,demo.py,meta.json}.
"""
import argparse
import json
import os
import shutil
import subprocess
import sys
import time

ap = argparse.ArgumentParser()
ap.add_argument("--id", required=True)
ap.add_argument("--patch", required=True)
ap.add_argument("--demo", default=None)
ap.add_argument("--check", action="append")
ap.add_argument("--wt", default="/tmp/wt_main")
ap.add_argument("--tier", default="quick")
ap.add_argument("--save", default=None)
ap.add_argument("--needs", default="")
ap.add_argument("--what", default="")
a = ap.parse_args()
checks = a.check or [a.id]


def sh(cmd, cwd=None, env=None, timeout=3600):
    r = subprocess.run(cmd, shell=isinstance(cmd, str), cwd=cwd, env=env, capture_output=True, text=True, timeout=timeout)
    return r.returncode, r.stdout, r.stderr


head = sh("git -C /repo rev-parse HEAD")[1].strip()
sh(f"git -C {a.wt} checkout -q -- . && git -C {a.wt} clean -fdq && git -C {a.wt} checkout -q --detach {head}")
res = {"id": a.id, "patch": a.patch, "repo_head": head, "checks": {}}
penv = dict(os.environ, PYTHONDONTWRITEBYTECODE="1", PYTHONPATH=a.wt)
if a.demo:
    rc, out, err = sh(["/venv/bin/python", "-B", os.path.abspath(a.demo)], cwd=a.wt, env=penv)
    res["demo_clean_exit"] = rc
    print(f"demo on clean tree: exit {rc}")
rc, out, err = sh(f"git -C {a.wt} apply --whitespace=nowarn {os.path.abspath(a.patch)}")
if rc != 0:
    print("PATCH DOES NOT APPLY:", err[:500])
    sys.exit(2)
try:
    rc, out, err = sh("/venv/bin/python -m pytest -q -p no:cacheprovider --timeout=900 2>&1 | tail -1", cwd=a.wt, env=penv)
    res["suite"] = out.strip()
    print("repo suite with patch:", out.strip())
    if a.demo:
        rc, out, err = sh(["/venv/bin/python", "-B", os.path.abspath(a.demo)], cwd=a.wt, env=penv)
        res["demo_patched_exit"] = rc
        res["demo_patched_tail"] = (out + err)[-400:]
        print(f"demo with patch: exit {rc}")
    for c in checks:
        env = dict(os.environ, VERIF_REPO=a.wt, VERIF_EVIDENCE_DIR="/tmp/verif_mutant_out/evidence", VERIF_REPLAY_DIR="/tmp/verif_mutant_out/replays")
        t0 = time.time()
        rc, out, err = sh([os.environ.get("VERIF_CHECK_CMD", "/verif/check"), c, "--tier", a.tier], env=env)
        sigs = []
        for l in out.splitlines():
            l2 = l.strip()
            tag = ""
            if l2.startswith("[hostile]"):
                l2 = l2[len("[hostile]"):].strip()
                tag = "[hostile environment pass] "
            if l2.startswith("violation sig="):
                sigs.append(tag + l2.split(" count=")[0].replace("violation sig=", ""))
        viol_lines = [l for l in out.splitlines() if l.startswith("VIOLATION ")]
        res["checks"][c] = {"exit": rc, "violation_lines": len(viol_lines), "signatures": sigs[:12], "wall_s": round(time.time() - t0, 1)}
        print(f"check {c} ({a.tier}): exit={rc} VIOLATION lines={len(viol_lines)} wall={res['checks'][c]['wall_s']}s")
        for s in sigs[:5]:
            print("    ", s[:200])
        if rc not in (0, 1):
            print(out[-800:], err[-800:])
finally:
    sh(f"git -C {a.wt} checkout -q -- . && git -C {a.wt} clean -fdq")
detected = [c for c, r in res["checks"].items() if r["exit"] == 1 and r["violation_lines"] > 0]
res["detected_by"] = detected
ok_seed = ("204 passed" in res.get("suite", "")) and (not a.demo or (res.get("demo_clean_exit") == 0 and res.get("demo_patched_exit") not in (0, None)))
res["seed_confirmed"] = ok_seed
print("seed confirmed:", ok_seed, "| detected by:", detected or "NONE")
if a.save:
    d = os.path.join("/verif/seeded", a.save)
    os.makedirs(d, exist_ok=True)
    if os.path.abspath(a.patch) != os.path.join(d, "patch.diff"):
        shutil.copy(a.patch, os.path.join(d, "patch.diff"))
    if a.demo and os.path.abspath(a.demo) != os.path.join(d, "demo.py"):
        shutil.copy(a.demo, os.path.join(d, "demo.py"))
    meta = {
        "property": a.id,
        "what": a.what,
        "needs_to_manifest": a.needs,
        "ran": {
            "repo_head": head,
            "suite_with_patch": res.get("suite"),
            "demo_clean_exit": res.get("demo_clean_exit"),
            "demo_patched_exit": res.get("demo_patched_exit"),
            "checks": res["checks"],
            "tier": a.tier,
        },
        "seed_confirmed": ok_seed,
        "detected_by": detected,
    }
    with open(os.path.join(d, "meta.json"), "w") as f:
        json.dump(meta, f, indent=1)
    print("saved", d)

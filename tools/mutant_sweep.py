#!/usr/bin/env python3
"""Syntactic mutant sweep: how many suite-surviving mutants of the anchor files do the checks kill?

Not a check and not evidence: a measuring tool for the machinery itself (DESIGN.md 9.4).  For every anchor file named in
properties.jsonl a deterministic, evenly spaced selection of AST mutation points (comparison operators, boolean operators, arithmetic /
bit operators, small integer constants +1, negated conditions, deleted attribute assignments / bare calls) is applied one at a time in a
scratch worktree; the repository's own test-suite runs first (a mutant it kills says nothing about the checks), then the quick tier
(main pass) of every property that anchors the file.  Survivors are listed for reading: each is either equivalent under the statement or
a hole.

usage: mutant_sweep.py --wt /tmp/wt_mut0 --lane 0 --lanes 4 --per-file 14 --out /tmp/mut_0.jsonl [--files a.py,b.py] [--check-cmd /verif/check]
"""
import argparse
import ast
import copy
import json
import os
import subprocess
import sys
import time

HERE = os.path.dirname(os.path.dirname(os.path.abspath(__file__)))

CMP = {ast.Lt: ast.LtE, ast.LtE: ast.Lt, ast.Gt: ast.GtE, ast.GtE: ast.Gt, ast.Eq: ast.NotEq, ast.NotEq: ast.Eq, ast.Is: ast.IsNot, ast.IsNot: ast.Is,
       ast.In: ast.NotIn, ast.NotIn: ast.In}
BIN = {ast.Add: ast.Sub, ast.Sub: ast.Add, ast.LShift: ast.RShift, ast.RShift: ast.LShift, ast.BitAnd: ast.BitOr, ast.BitOr: ast.BitAnd,
       ast.BitXor: ast.BitAnd, ast.Mult: ast.FloorDiv, ast.FloorDiv: ast.Mult, ast.Mod: ast.FloorDiv}


class Mut(ast.NodeTransformer):
    def __init__(self, target):
        self.i = -1
        self.target = target
        self.desc = None
        self.in_func = 0

    def hit(self, node, what):
        self.i += 1
        if self.i == self.target:
            self.desc = f"line {getattr(node, 'lineno', '?')}: {what}"
            return True
        return False

    def visit_FunctionDef(self, node):
        self.in_func += 1
        # skip the docstring
        self.generic_visit(node)
        self.in_func -= 1
        return node

    visit_AsyncFunctionDef = visit_FunctionDef

    def visit_JoinedStr(self, node):  # f-strings: log / error texts
        return node

    def visit_Assert(self, node):  # message part untouched, condition mutated
        node.test = self.visit(node.test)
        return node

    def visit_Compare(self, node):
        self.generic_visit(node)
        if self.in_func and type(node.ops[0]) in CMP and self.hit(node, f"{type(node.ops[0]).__name__} -> {CMP[type(node.ops[0])].__name__}"):
            node.ops[0] = CMP[type(node.ops[0])]()
        return node

    def visit_BoolOp(self, node):
        self.generic_visit(node)
        if self.in_func and self.hit(node, f"{type(node.op).__name__} -> other"):
            node.op = ast.Or() if isinstance(node.op, ast.And) else ast.And()
        return node

    def visit_BinOp(self, node):
        self.generic_visit(node)
        if self.in_func and type(node.op) in BIN and not isinstance(node.left, (ast.JoinedStr,)) and not (isinstance(node.left, ast.Constant) and isinstance(node.left.value, str)):
            if self.hit(node, f"{type(node.op).__name__} -> {BIN[type(node.op)].__name__}"):
                node.op = BIN[type(node.op)]()
        return node

    def visit_Constant(self, node):
        if self.in_func and type(node.value) is int and 0 <= node.value <= 300:
            if self.hit(node, f"constant {node.value} -> {node.value + 1}"):
                return ast.copy_location(ast.Constant(node.value + 1), node)
        return node

    def visit_If(self, node):
        self.generic_visit(node)
        if self.in_func and self.hit(node, "if condition negated"):
            node.test = ast.UnaryOp(op=ast.Not(), operand=node.test)
        return node

    def _deletable(self, node):
        if isinstance(node, ast.Expr) and isinstance(node.value, ast.Call):
            f = node.value.func
            name = f.attr if isinstance(f, ast.Attribute) else getattr(f, "id", "")
            return not name.startswith(("log", "print", "debug", "warn"))
        if isinstance(node, (ast.Assign, ast.AugAssign)):
            t = node.targets[0] if isinstance(node, ast.Assign) else node.target
            return isinstance(t, (ast.Attribute, ast.Subscript))
        return False

    def visit_Expr(self, node):
        self.generic_visit(node)
        if self.in_func and self._deletable(node) and self.hit(node, "statement deleted: " + ast.unparse(node)[:60]):
            return ast.copy_location(ast.Pass(), node)
        return node

    def visit_Assign(self, node):
        self.generic_visit(node)
        if self.in_func and self._deletable(node) and self.hit(node, "statement deleted: " + ast.unparse(node)[:60]):
            return ast.copy_location(ast.Pass(), node)
        return node

    visit_AugAssign = visit_Assign


def count_points(src):
    m = Mut(-1)
    m.visit(ast.parse(src))
    return m.i + 1


def mutate(src, k):
    m = Mut(k)
    tree = m.visit(ast.parse(src))
    ast.fix_missing_locations(tree)
    return ast.unparse(tree), m.desc


def sh(cmd, cwd=None, env=None, timeout=1800):
    try:
        r = subprocess.run(cmd, shell=isinstance(cmd, str), cwd=cwd, env=env, capture_output=True, text=True, timeout=timeout)
        return r.returncode, r.stdout, r.stderr
    except subprocess.TimeoutExpired:
        return 124, "", "timeout"


def main():
    ap = argparse.ArgumentParser()
    ap.add_argument("--wt", required=True)
    ap.add_argument("--lane", type=int, default=0)
    ap.add_argument("--lanes", type=int, default=1)
    ap.add_argument("--per-file", type=int, default=12)
    ap.add_argument("--out", required=True)
    ap.add_argument("--files", default="")
    ap.add_argument("--check-cmd", default=os.path.join(HERE, "check"))
    ap.add_argument("--workers", default="4")
    ap.add_argument("--offset", type=int, default=0, help="shift the evenly spaced selection (another sample of the same files)")
    a = ap.parse_args()
    anchors = {}
    for line in open(os.path.join(HERE, "properties.jsonl")):
        d = json.loads(line)
        for f in d["anchors"]["files"]:
            anchors.setdefault(f, []).append(d["id"])
    files = sorted(anchors)
    if a.files:
        files = [f for f in files if f in a.files.split(",")]
    head = sh("git -C /repo rev-parse HEAD")[1].strip()
    if not os.path.isdir(a.wt):
        sh(f"git -C /repo worktree add -q --detach {a.wt} {head}")
    sh(f"git -C {a.wt} checkout -q -- . && git -C {a.wt} checkout -q --detach {head}")
    penv = dict(os.environ, PYTHONDONTWRITEBYTECODE="1", PYTHONPATH=a.wt)
    jobs = []
    for f in files:
        path = os.path.join(a.wt, f)
        if not os.path.isfile(path):
            continue
        src = open(path).read()
        n = count_points(src)
        if n == 0:
            continue
        take = min(a.per_file, n)
        ks = sorted({(int(i * n / take) + a.offset) % n for i in range(take)})
        for k in ks:
            jobs.append((f, k))
    jobs = [j for i, j in enumerate(jobs) if i % a.lanes == a.lane]
    out = open(a.out, "a")
    for f, k in jobs:
        path = os.path.join(a.wt, f)
        src = open(path).read()
        rec = {"file": f, "point": k, "properties": anchors[f]}
        try:
            mut, desc = mutate(src, k)
            rec["mutation"] = desc
            compile(mut, f, "exec")
        except Exception as e:  # noqa: BLE001
            rec["status"] = "not_applicable:" + type(e).__name__
            out.write(json.dumps(rec) + "\n")
            continue
        if ast.dump(ast.parse(mut)) == ast.dump(ast.parse(src)):
            continue
        open(path, "w").write(mut)
        try:
            t0 = time.time()
            rc, o, e = sh("/venv/bin/python -m pytest -q -x -p no:cacheprovider --timeout=120 2>&1 | tail -1", cwd=a.wt, env=penv, timeout=600)
            rec["suite"] = o.strip()[-80:]
            if "204 passed" not in o:
                rec["status"] = "killed_by_suite"
            else:
                rec["status"] = "survived"
                rec["checks"] = {}
                for pid in anchors[f]:
                    env = dict(os.environ, VERIF_REPO=a.wt, VERIF_EVIDENCE_DIR=f"/tmp/verif_mut_out/{a.lane}/evidence", VERIF_REPLAY_DIR=f"/tmp/verif_mut_out/{a.lane}/replays",
                               VERIF_SKIP_OPT_PASS="1", VERIF_WORKERS=a.workers)
                    rc, o, e = sh([a.check_cmd, pid, "--tier", "quick"], env=env, timeout=1500)
                    sigs = [l.strip().split(" count=")[0].replace("violation sig=", "") for l in o.splitlines() if l.strip().startswith("violation sig=")]
                    rec["checks"][pid] = {"exit": rc, "signatures": sigs[:4]}
                    if rc == 1 and any(l.startswith("VIOLATION ") for l in o.splitlines()):
                        rec["status"] = "killed_by_check"
                        rec["killed_by"] = pid
                        break
                    if rc not in (0, 1):
                        rec["status"] = "check_error"
                        rec["detail"] = (o + e)[-300:]
                        break
            rec["wall_s"] = round(time.time() - t0, 1)
        finally:
            open(path, "w").write(src)
        out.write(json.dumps(rec) + "\n")
        out.flush()
        print(rec["status"], f, rec.get("mutation"), rec.get("killed_by", ""), flush=True)
    sh(f"git -C {a.wt} checkout -q -- .")


if __name__ == "__main__":
    main()

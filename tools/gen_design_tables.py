#!/usr/bin/env python3
"""Regenerate the generated part of DESIGN.md (between the GENERATED markers): the table of repaired defects from
KNOWN_FINDINGS.json and the detection matrix from seeded/*/meta.json."""
import glob
import json
import os
import re

HERE = os.path.dirname(os.path.dirname(os.path.abspath(__file__)))
BEGIN = "<!-- GENERATED:BEGIN (tools/gen_design_tables.py) -->"
END = "<!-- GENERATED:END -->"


def fixes_table():
    d = json.load(open(os.path.join(HERE, "KNOWN_FINDINGS.json")))
    rows = []
    for line in d.get("fixed", []):
        m = re.match(r"fixed: property=(C\d+) (\w+) (.*)", line)
        if not m:
            continue
        pid, sha, rest = m.groups()
        sig = ""
        ms = re.search(r"\((sigs? .*)\)\s*$", rest)
        if ms:
            sig = ms.group(1)
            rest = rest[: ms.start()].strip()
        rows.append((pid, sha, rest.replace("|", "\\|"), sig.replace("|", "\\|")))
    rows.sort(key=lambda r: r[0])
    out = ["| property | /repo commit | what failed on the pinned tree | check signature(s) that reported it |", "|---|---|---|---|"]
    for r in rows:
        out.append(f"| {r[0]} | `{r[1]}` | {r[2]} | {r[3]} |")
    out.append("")
    out.append(f"{len(rows)} defects repaired by `fix:` commits; open known findings: {len([f for f in d.get('findings', []) if f.get('status') == 'open'])}.")
    return "\n".join(out)


def seeds_table():
    rows = []
    for f in sorted(glob.glob(os.path.join(HERE, "seeded", "*", "meta.json"))):
        m = json.load(open(f))
        name = os.path.basename(os.path.dirname(f))
        what = m.get("what") or ""
        notes = os.path.join(os.path.dirname(f), "notes.md")
        if not what and os.path.exists(notes):
            txt = open(notes).read()
            lines = [l.strip("#* ").strip() for l in txt.splitlines() if l.strip()]
            what = lines[0][:160] if lines else ""
            for l in lines[1:4]:
                if l.lower().startswith(("change", "what")):
                    what = l[:220]
                    break
        det = m.get("detected_by") or []
        sigs = []
        for c in det:
            sigs += [s.split(":", 1)[-1] if False else s for s in m["ran"]["checks"][c]["signatures"][:2]]
        if m.get("note"):
            what = (what + " — NOTE: " + m["note"])[:420]
        rows.append((name, m.get("property"), what.replace("|", "\\|"), "yes" if m.get("seed_confirmed") else "no longer breaks the property",
                     ", ".join(det) if det else ("n/a" if m.get("note") else "**missed**"), "; ".join(s[:90] for s in sigs[:2]).replace("|", "\\|")))
    out = ["| seed | property | change (first line of the author's notes) | confirmed | detected by (quick tier) | first signatures |", "|---|---|---|---|---|---|"]
    for r in rows:
        out.append("| " + " | ".join(r) + " |")
    n = len([r for r in rows if r[3] == "yes"])
    nd = len([r for r in rows if r[3] == "yes" and r[4] not in ("**missed**", "n/a")])
    nn = len([r for r in rows if r[3] == "yes" and r[4] == "n/a"])
    nm = len([r for r in rows if r[3] == "yes" and r[4] == "**missed**"])
    out.append("")
    out.append(f"{len(rows)} seeded changes recorded, {n} of them confirmed on the current tree: {nd} detected by the quick tier of the seeded property's check "
               f"(last run of each seed against the committed checks), {nn} deliberately not pursued (n/a, reason in the NOTE), {nm} missed.")
    return "\n".join(out)


def main():
    p = os.path.join(HERE, "DESIGN.md")
    s = open(p).read()
    gen = BEGIN + "\n\n#### Repaired defects\n\n" + fixes_table() + "\n\n#### Seeded changes\n\n" + seeds_table() + "\n\n" + END
    if BEGIN in s:
        s = s[: s.index(BEGIN)] + gen + s[s.index(END) + len(END):]
    else:
        s = s.rstrip("\n") + "\n\n" + gen + "\n"
    open(p, "w").write(s)
    print("DESIGN.md tables regenerated")


if __name__ == "__main__":
    main()

#!/usr/bin/env python3
"""Apply a textual mutation in a scratch worktree, run the repo suite and one or more checks, revert.

usage: try_mutant.py --wt /tmp/wt_main --file okdmr/... --old 'text' --new 'text' --check C08 [--check C01] [--no-tests] [--count N]
"""
import argparse
import os
import subprocess
import sys

ap = argparse.ArgumentParser()
ap.add_argument("--wt", default="/tmp/wt_main")
ap.add_argument("--file", required=True)
ap.add_argument("--old", required=True)
ap.add_argument("--new", required=True)
ap.add_argument("--check", action="append", required=True)
ap.add_argument("--no-tests", action="store_true")
ap.add_argument("--count", type=int, default=1, help="which occurrence (1-based); 0 = all")
ap.add_argument("--tier", default="quick")
a = ap.parse_args()

path = os.path.join(a.wt, a.file)
src = open(path).read()
old = a.old.encode().decode("unicode_escape")
new = a.new.encode().decode("unicode_escape")
if old not in src:
    print("OLD TEXT NOT FOUND")
    sys.exit(2)
if a.count == 0:
    mut = src.replace(old, new)
else:
    idx = -1
    for _ in range(a.count):
        idx = src.index(old, idx + 1)
    mut = src[:idx] + new + src[idx + len(old):]
open(path, "w").write(mut)
try:
    if not a.no_tests:
        r = subprocess.run(
            "/venv/bin/python -m pytest -q -p no:cacheprovider --timeout=900 -x 2>&1 | tail -1",
            shell=True, cwd=a.wt, capture_output=True, text=True)
        print("repo suite:", r.stdout.strip())
    for c in a.check:
        env = dict(os.environ, VERIF_REPO=a.wt, VERIF_EVIDENCE_DIR="/tmp/verif_mutant_out/evidence", VERIF_REPLAY_DIR="/tmp/verif_mutant_out/replays")
        r = subprocess.run(["/verif/check", c, "--tier", a.tier], capture_output=True, text=True, env=env)
        sigs = [l.strip()[:220] for l in r.stdout.splitlines() if l.strip().startswith("violation sig=")]
        print(f"check {c}: exit={r.returncode} violations={len(sigs)}")
        for s in sigs[:6]:
            print("   ", s)
        if r.returncode not in (0, 1):
            print(r.stdout[-1500:], r.stderr[-1500:])
finally:
    open(path, "w").write(src)
